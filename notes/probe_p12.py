import sys, numpy as np, warnings, random, time
sys.path.insert(0, sys.argv[1])
from pyvaporation import *
from pyvaporation.optimizer.optimizer import Measurement, Measurements, fit, find_best_fit
from pyvaporation.mixtures.uniquac_fitting import objective as vle_obj, FITTING_ALGS
from pyvaporation.mixtures import VLEPoints, fit_vle
warnings.simplefilter("ignore")
rng=random.Random(7)
def loss(f, data): return sum((f(d.x,d.t)-d.p)**2 for d in data)
bad=0
t0=time.time()
for it in range(12):
    nt = rng.randint(1,3); temps=[300+15*i for i in range(nt)]
    pts=[]
    for t in temps:
        for j in range(rng.randint(3,8)):
            x=rng.uniform(0.02,0.98); pts.append(Measurement(x=x,t=t,p=0.02*np.exp(rng.uniform(0.5,2)*x - 2000*(1/t-1/320))*(1+0.02*rng.uniform(-1,1))))
    ms=Measurements(data=pts); snap=[(d.x,d.t,d.p) for d in ms.data]
    N=rng.randint(0,2); M=rng.randint(0,1); iz=rng.random()<0.5; ci=rng.randint(0,1)
    with np.errstate(all='ignore'):
        best=find_best_fit(ms, include_zero=iz, component_index=ci, n=N, m=M)
        best2=find_best_fit(ms, include_zero=iz, component_index=ci, n=N, m=M)
        lb=loss(best,ms)
        same = (best.alpha==best2.alpha and list(best.a)==list(best2.a) and list(best.b)==list(best2.b))
        worse=[]
        for n in range(N+1):
            for m in range(M+1):
                f=fit(ms,n=n,m=m,include_zero=iz,component_index=ci)
                if loss(f,ms) < lb*(1-1e-12): worse.append((n,m,loss(f,ms),lb))
    unchanged = snap==[(d.x,d.t,d.p) for d in ms.data]
    print(it, len(pts), N,M,iz, "same",same,"unchanged",unchanged,"worse",worse[:2])
print(time.time()-t0)
d = VLEPoints.from_csv("/repo/tests/VLE_data/binary/H2O_MeOH.csv")
with np.errstate(all='ignore'):
    t0=time.time(); allp=fit_vle(d); ea=vle_obj(d,[allp.alpha_12,allp.alpha_21,allp.beta_12,allp.beta_21,allp.z])
    print("all",ea,allp.z,time.time()-t0)
    for alg in FITTING_ALGS:
        p=fit_vle(d,method=alg); e=vle_obj(d,[p.alpha_12,p.alpha_21,p.beta_12,p.beta_21,p.z]); print(alg,e,p.z, "WORSE" if e<ea*(1-1e-12) else "")
