import sys, numpy as np, random, warnings, math
sys.path.insert(0, sys.argv[1])
from pyvaporation import *
from pyvaporation.utils import R
warnings.simplefilter("ignore")
rng = random.Random(4)
comps = [Components.H2O, Components.EtOH, Components.MeOH, Components.Toluene]
worst={}
def upd(k,v,info=None):
    if v>worst.get(k,(0,None))[0]: worst[k]=(v,info)
def rel(a,b): return abs(a-b)/max(abs(a),abs(b),1e-300)
errs={}
for it in range(3000):
    c = rng.choice(comps); n = rng.randint(1,6)
    temps = rng.sample([273+ i*3.7 for i in range(35)], n)
    ea_true = rng.uniform(-60e3,120e3); p0 = 10**rng.uniform(-5,-1); T0 = temps[0]
    online = rng.random()<0.5
    stated = rng.random()<0.5
    exps=[]
    for t in temps:
        p = p0*math.exp(-ea_true/R*(1/t-1/T0)) * (1 if online else 10**rng.uniform(-0.1,0.1))
        exps.append(IdealExperiment(name="e", temperature=t, component=c, permeance=Permeance(p), activation_energy=(ea_true if stated else None)))
    # another component's experiments interleaved
    other = Components.iPOH
    exps.append(IdealExperiment(name="o", temperature=300.0, component=other, permeance=Permeance(1e-3), activation_energy=1e4))
    rng.shuffle(exps)
    m = Membrane(name="m", ideal_experiments=IdealExperiments(experiments=exps))
    Tq = rng.uniform(260,420)
    mine = [e for e in exps if e.component is c]
    d = [abs(e.temperature-Tq) for e in mine]
    idx = min(range(len(mine)), key=lambda i: d[i])
    try:
        got = m.get_permeance(Tq, c).value
    except Exception as e:
        errs.setdefault((n,stated,type(e).__name__),0); errs[(n,stated,type(e).__name__)]+=1
        continue
    if stated: ea = ea_true
    else: ea = m.calculate_activation_energy(c)
    exp = mine[idx].permeance.value*math.exp(-ea/R*(1/Tq-1/mine[idx].temperature))
    upd(("C12","formula",stated,online), rel(got,exp), (n,Tq))
    if online and n>=2:
        upd(("C12","regress"), rel(m.calculate_activation_energy(c), ea_true), (n,ea_true))
        upd(("C12","pathindep"), rel(got, p0*math.exp(-ea_true/R*(1/Tq-1/T0))), (n,stated,ea_true))
    # exact temperature
    upd(("C12","exact"), rel(m.get_permeance(mine[0].temperature, c).value, mine[0].permeance.value))
for k in sorted(worst, key=str): print(k, "%.2e"%worst[k][0], worst[k][1])
print(errs)
