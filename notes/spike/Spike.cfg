SPECIFICATION Spec
INVARIANT Inv
PROPERTY Term
VIEW View
CHECK_DEADLOCK FALSE
