SPECIFICATION Spec
PROPERTY Terminates
VIEW View
CHECK_DEADLOCK FALSE
