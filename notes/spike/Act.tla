------------------------------ MODULE Act ------------------------------
EXTENDS Integers, TLC, Sequences, F64, F64Json, IOUtils
Trace == F64NdJson(IOEnv.TRACE_FILE)
R == Lit("8.314462")
One == Lit("1.0")
Sq(a) == FMul(a, a)
\* NRTL reference: rec = [g12,g21,al12,al21,a12,a21,T,x]
NRTL(r) ==
  LET t12 == FAdd(r.a12, FDiv(r.g12, FMul(R, r.T)))
      t21 == FAdd(r.a21, FDiv(r.g21, FMul(R, r.T)))
      G12 == FExp(FSub(Lit("0.0"), FMul(t12, r.al12)))
      G21 == FExp(FSub(Lit("0.0"), FMul(t21, r.al21)))
      x1 == r.x
      x2 == FSub(One, r.x)
      lg1 == FMul(Sq(x2), FAdd(FMul(t21, Sq(FDiv(G21, FAdd(x1, FMul(x2, G21))))),
                               FDiv(FMul(t12, G12), Sq(FAdd(x2, FMul(x1, G12))))))
      lg2 == FMul(Sq(x1), FAdd(FMul(t12, Sq(FDiv(G12, FAdd(x2, FMul(x1, G12))))),
                               FDiv(FMul(t21, G21), Sq(FAdd(x1, FMul(x2, G21))))))
  IN <<FExp(lg1), FExp(lg2)>>
Antoine(a, b, c, T) == FPow10(FAdd(a, FDiv(b, FAdd(T, c))))
VARIABLE l
Init == l = 1
Next == l < Len(Trace) /\ l' = l + 1
Spec == Init /\ [][Next]_l
Rr == Trace[l]
RefOK == LET g == NRTL(Rr) IN FClose(g[1], Rr.g1, Lit("1e-13")) /\ FClose(g[2], Rr.g2, Lit("1e-13"))
PsatOK == FClose(Antoine(Rr.A, Rr.B, Rr.C, Rr.T), Rr.psat, Lit("1e-13"))
\* Gibbs-Duhem on logged code outputs (central difference)
GD == LET h == Rr.h
          d1 == FDiv(FSub(FLog(Rr.g1p), FLog(Rr.g1m)), FMul(Lit("2.0"), h))
          d2 == FDiv(FSub(FLog(Rr.g2p), FLog(Rr.g2m)), FMul(Lit("2.0"), h))
          res == FAdd(FMul(Rr.x, d1), FMul(FSub(One, Rr.x), d2))
      IN FLt(FMul(res, res), Lit("1e-12"))
=============================================================================
