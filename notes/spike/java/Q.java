package tlc2.module;
import java.math.BigInteger; import java.math.BigDecimal;
import tlc2.value.impl.*;
public class Q {
  public static final long serialVersionUID = 20260101L;
  static BigInteger[] q(Value v) { TupleValue t = (TupleValue) v.toTuple();
    return new BigInteger[]{BigInteger.valueOf(((IntValue) t.elems[0]).val), BigInteger.valueOf(((IntValue) t.elems[1]).val)}; }
  static Value mk(BigInteger n, BigInteger d) {
    if (d.signum() == 0) throw new ArithmeticException("Q: division by zero");
    if (d.signum() < 0) { n = n.negate(); d = d.negate(); }
    BigInteger g = n.gcd(d); if (g.signum() != 0) { n = n.divide(g); d = d.divide(g); }
    if (n.bitLength() > 31 || d.bitLength() > 31) throw new ArithmeticException("Q: overflow " + n + "/" + d);
    return new TupleValue(IntValue.gen(n.intValue()), IntValue.gen(d.intValue())); }
  public static Value QLit(final StringValue s) { BigDecimal b = new BigDecimal(s.val.toString());
    return mk(b.unscaledValue(), BigInteger.TEN.pow(Math.max(b.scale(), 0)).multiply(BigInteger.ONE)).equals(null) ? null :
           (b.scale() >= 0 ? mk(b.unscaledValue(), BigInteger.TEN.pow(b.scale())) : mk(b.unscaledValue().multiply(BigInteger.TEN.pow(-b.scale())), BigInteger.ONE)); }
  public static Value QInt(final IntValue i) { return mk(BigInteger.valueOf(i.val), BigInteger.ONE); }
  public static Value QRat(final IntValue n, final IntValue d) { return mk(BigInteger.valueOf(n.val), BigInteger.valueOf(d.val)); }
  public static Value QAdd(final Value a, final Value b) { BigInteger[] x = q(a), y = q(b); return mk(x[0].multiply(y[1]).add(y[0].multiply(x[1])), x[1].multiply(y[1])); }
  public static Value QSub(final Value a, final Value b) { BigInteger[] x = q(a), y = q(b); return mk(x[0].multiply(y[1]).subtract(y[0].multiply(x[1])), x[1].multiply(y[1])); }
  public static Value QMul(final Value a, final Value b) { BigInteger[] x = q(a), y = q(b); return mk(x[0].multiply(y[0]), x[1].multiply(y[1])); }
  public static Value QDiv(final Value a, final Value b) { BigInteger[] x = q(a), y = q(b); return mk(x[0].multiply(y[1]), x[1].multiply(y[0])); }
  public static Value QLt(final Value a, final Value b) { BigInteger[] x = q(a), y = q(b); return x[0].multiply(y[1]).compareTo(y[0].multiply(x[1])) < 0 ? BoolValue.ValTrue : BoolValue.ValFalse; }
}
