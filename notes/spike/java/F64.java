package tlc2.module;
import tlc2.value.impl.*;
public class F64 {
  public static final long serialVersionUID = 20260101L;
  static double d(Value v) {
    TupleValue t = (TupleValue) v.toTuple();
    long hi = ((IntValue) t.elems[0]).val; long lo = ((IntValue) t.elems[1]).val;
    return Double.longBitsToDouble((hi << 32) | (lo & 0xFFFFFFFFL));
  }
  static Value f(double x) {
    long b = Double.doubleToLongBits(x);
    return new TupleValue(IntValue.gen((int)(b >> 32)), IntValue.gen((int) b));
  }
  public static Value Lit(final StringValue s) { return f(Double.parseDouble(s.val.toString())); }
  public static Value FromInt(final IntValue i) { return f((double) i.val); }
  public static Value FAdd(final Value a, final Value b) { return f(d(a) + d(b)); }
  public static Value FSub(final Value a, final Value b) { return f(d(a) - d(b)); }
  public static Value FMul(final Value a, final Value b) { return f(d(a) * d(b)); }
  public static Value FDiv(final Value a, final Value b) { return f(d(a) / d(b)); }
  public static Value FExp(final Value a) { return f(StrictMath.exp(d(a))); }
  public static Value FLog(final Value a) { return f(StrictMath.log(d(a))); }
  public static Value FLt(final Value a, final Value b) { return d(a) < d(b) ? BoolValue.ValTrue : BoolValue.ValFalse; }
  public static Value FClose(final Value a, final Value b, final Value rel) {
    double x = d(a), y = d(b), r = d(rel);
    return (Math.abs(x - y) <= r * Math.max(Math.abs(x), Math.abs(y))) ? BoolValue.ValTrue : BoolValue.ValFalse;
  }
  public static Value FPow10(final Value a) { return f(Math.pow(10.0, d(a))); }
  public static Value FAbs(final Value a) { return f(Math.abs(d(a))); }
  public static Value FStr(final Value a) { return new StringValue(Double.toString(d(a))); }
}
