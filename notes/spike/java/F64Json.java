package tlc2.module;
import java.io.*; import java.nio.file.*; import java.util.*;
import com.google.gson.*;
import tlc2.value.impl.*;
import util.UniqueString;
public class F64Json {
  public static final long serialVersionUID = 20260101L;
  static Value conv(JsonElement e) {
    if (e.isJsonNull()) return new TupleValue(new Value[0]);
    if (e.isJsonPrimitive()) {
      JsonPrimitive p = e.getAsJsonPrimitive();
      if (p.isBoolean()) return p.getAsBoolean() ? BoolValue.ValTrue : BoolValue.ValFalse;
      if (p.isString()) return new StringValue(p.getAsString());
      String s = p.getAsString();
      boolean isInt = s.matches("-?[0-9]+");
      if (isInt) { long v = Long.parseLong(s); if (v >= Integer.MIN_VALUE && v <= Integer.MAX_VALUE) return IntValue.gen((int) v); }
      return F64.f(Double.parseDouble(s));
    }
    if (e.isJsonArray()) {
      JsonArray a = e.getAsJsonArray(); Value[] vs = new Value[a.size()];
      for (int i = 0; i < vs.length; i++) vs[i] = conv(a.get(i));
      return new TupleValue(vs);
    }
    JsonObject o = e.getAsJsonObject();
    List<UniqueString> ks = new ArrayList<>(); List<Value> vs = new ArrayList<>();
    for (Map.Entry<String, JsonElement> en : o.entrySet()) { ks.add(UniqueString.uniqueStringOf(en.getKey())); vs.add(conv(en.getValue())); }
    return new RecordValue(ks.toArray(new UniqueString[0]), vs.toArray(new Value[0]), false);
  }
  public static Value F64NdJson(final StringValue path) throws IOException {
    List<Value> out = new ArrayList<>();
    try (BufferedReader r = Files.newBufferedReader(Paths.get(path.val.toString()))) {
      String line; while ((line = r.readLine()) != null) { if (line.isBlank()) continue; out.add(conv(JsonParser.parseString(line))); }
    }
    return new TupleValue(out.toArray(new Value[0]));
  }
}
