------------------------------ MODULE F64 ------------------------------
(* IEEE-754 binary64 arithmetic for TLC; values are <<hi, lo>> int pairs. *)
LOCAL INSTANCE Integers
Lit(s) == CHOOSE x \in {} : TRUE       \* parse decimal string
FromInt(i) == CHOOSE x \in {} : TRUE
FAdd(a, b) == CHOOSE x \in {} : TRUE
FSub(a, b) == CHOOSE x \in {} : TRUE
FMul(a, b) == CHOOSE x \in {} : TRUE
FDiv(a, b) == CHOOSE x \in {} : TRUE
FExp(a) == CHOOSE x \in {} : TRUE
FLog(a) == CHOOSE x \in {} : TRUE
FLt(a, b) == CHOOSE x \in BOOLEAN : TRUE
FClose(a, b, rel) == CHOOSE x \in BOOLEAN : TRUE
FPow10(a) == CHOOSE x \in {} : TRUE
FAbs(a) == CHOOSE x \in {} : TRUE
FStr(a) == CHOOSE x \in {} : TRUE
=============================================================================
