------------------------------ MODULE MCStepQ ------------------------------
EXTENDS Integers, Sequences, TLC, Q
VARIABLES s0, in, s1
C == INSTANCE ProcCore WITH Add <- QAdd, Sub <- QSub, Mul <- QMul, Div <- QDiv, Lt <- QLt, Eq <- QEq, Zero <- QInt(0)
Fl == {QRat(0,1), QRat(1,8), QRat(1,2)}
Ins == [J1: Fl, J2: Fl, A: {QInt(1), QInt(2)}, dt: {QRat(1,2), QInt(1)}, h1: {QInt(1), QInt(3)}, h2: {QInt(2), QInt(1)},
        c1: {QInt(1), QInt(2)}, c2: {QInt(1), QInt(3)}, one: {QInt(1)}]
Init == /\ s0 \in [m: {QInt(4), QInt(8)}, x: {QRat(1,4), QRat(1,2)}, T: {QInt(300), QInt(350)}]
        /\ in \in Ins /\ s1 = <<>>
Next == s1 = <<>> /\ QLt(QInt(0), C!MassNext(s0, in)) /\ s1' = C!StepFn(s0, in) /\ UNCHANGED <<s0, in>>
Spec == Init /\ [][Next]_<<s0, in, s1>>
Inv == s1 # <<>> => (C!MassBal(s0, in, s1) /\ C!CompBal(s0, in, s1) /\ C!SelfCool(s0, in, s1))
\* a wrong design must be caught: component balance with the wrong flux
Bad == s1 # <<>> => QEq(QMul(s1.m, s1.x), QSub(QMul(s0.m, s0.x), QMul(QMul(in.J2, in.A), in.dt)), s0.m)
=============================================================================
