------------------------------ MODULE Spike ------------------------------
EXTENDS Integers, TLC, F64
VARIABLES y, n
G(v) == FMul(Lit("3.2"), FMul(v, FSub(Lit("1.0"), v)))   \* logistic map with attracting 2-cycle
Init == y = Lit("0.3") /\ n = 0
Next == /\ ~FClose(G(y), y, Lit("1e-9"))
        /\ y' = G(y) /\ n' = n + 1
Spec == Init /\ [][Next]_<<y,n>> /\ WF_<<y,n>>(Next)
View == y
Term == <>(FClose(G(y), y, Lit("1e-9")))
Inv == FLt(y, Lit("2.0"))
=============================================================================
