------------------------------ MODULE Q ------------------------------
(* exact rationals <<n, d>>, d > 0, lowest terms; Java override *)
QLit(s) == CHOOSE x \in {} : TRUE
QInt(i) == CHOOSE x \in {} : TRUE
QRat(n, d) == CHOOSE x \in {} : TRUE
QAdd(a, b) == CHOOSE x \in {} : TRUE
QSub(a, b) == CHOOSE x \in {} : TRUE
QMul(a, b) == CHOOSE x \in {} : TRUE
QDiv(a, b) == CHOOSE x \in {} : TRUE
QLt(a, b) == CHOOSE x \in BOOLEAN : TRUE
QEq(a, b, s) == a = b
=============================================================================
