SPECIFICATION Spec
INVARIANT MassBalance
INVARIANT OptNone
CHECK_DEADLOCK FALSE
