------------------------------ MODULE TV ------------------------------
EXTENDS Integers, TLC, Sequences, F64, F64Json, IOUtils
Trace == F64NdJson(IOEnv.TRACE_FILE)
VARIABLE l
Init == l = 1
Next == l < Len(Trace) /\ l' = l + 1
Spec == Init /\ [][Next]_l
R == Trace[l]
MassBalance == LET d1 == FMul(FMul(R.j[1], R.A), R.dt)
                   d2 == FMul(FMul(R.j[2], R.A), R.dt)
               IN FClose(R.m2, FSub(FSub(R.m, d1), d2), Lit("1e-12"))
OptNone == Len(R.opt) = 0
=============================================================================
