------------------------------ MODULE ProcCore ------------------------------
(* Euler step of the process models over an abstract arithmetic. *)
EXTENDS Integers, Sequences
CONSTANTS Add(_,_), Sub(_,_), Mul(_,_), Div(_,_), Lt(_,_), Eq(_,_,_), Zero
\* state s = [m, x, T]; inputs in = [J1, J2, A, dt, h1, h2, c1, c2]
D1(in) == Mul(Mul(in.J1, in.A), in.dt)
D2(in) == Mul(Mul(in.J2, in.A), in.dt)
Qevap(in) == Add(Mul(in.h1, D1(in)), Mul(in.h2, D2(in)))
Cp(s, in) == Add(Mul(s.x, in.c1), Mul(Sub(in.one, s.x), in.c2))
MassNext(s, in) == Sub(Sub(s.m, D1(in)), D2(in))
CompNext(s, in) == Div(Sub(Mul(s.x, s.m), D1(in)), MassNext(s, in))
TempNext(s, in) == Sub(s.T, Div(Qevap(in), Mul(Cp(s, in), s.m)))
StepFn(s, in) == [m |-> MassNext(s, in), x |-> CompNext(s, in), T |-> TempNext(s, in)]
\* property clauses (relations between a state, the inputs and the successor)
MassBal(s, in, t) == Eq(t.m, Sub(s.m, Mul(Mul(Add(in.J1, in.J2), in.A), in.dt)), s.m)
CompBal(s, in, t) == Eq(Mul(t.m, t.x), Sub(Mul(s.m, s.x), Mul(Mul(in.J1, in.A), in.dt)), s.m)
SelfCool(s, in, t) == Eq(Mul(Sub(s.T, t.T), Mul(Cp(s, in), s.m)), Qevap(in), Qevap(in))
=============================================================================
