------------------------------ MODULE Loop ------------------------------
EXTENDS Integers, TLC, Sequences, F64
R == Lit("8.314462")
One == Lit("1.0")
Zero == Lit("0.0")
Sq(a) == FMul(a, a)
NRTL(r, T, x) ==
  LET t12 == FAdd(r.a12, FDiv(r.g12, FMul(R, T)))
      t21 == FAdd(r.a21, FDiv(r.g21, FMul(R, T)))
      G12 == FExp(FSub(Zero, FMul(t12, r.al12)))
      G21 == FExp(FSub(Zero, FMul(t21, r.al21)))
      x1 == x
      x2 == FSub(One, x)
      lg1 == FMul(Sq(x2), FAdd(FMul(t21, Sq(FDiv(G21, FAdd(x1, FMul(x2, G21))))),
                               FDiv(FMul(t12, G12), Sq(FAdd(x2, FMul(x1, G12))))))
      lg2 == FMul(Sq(x1), FAdd(FMul(t12, Sq(FDiv(G12, FAdd(x2, FMul(x1, G12))))),
                               FDiv(FMul(t21, G21), Sq(FAdd(x1, FMul(x2, G21))))))
  IN <<FExp(lg1), FExp(lg2)>>
Antoine(c, T) == FPow10(FAdd(c[1], FDiv(c[2], FAdd(T, c[3]))))
ToMolar(w, M1, M2) == FDiv(FDiv(w, M1), FAdd(FDiv(w, M1), FDiv(FSub(One, w), M2)))
\* H2O / MeOH as shipped
Mix == [g12 |-> Lit("-5132.51739"), g21 |-> Lit("1438.40193"), al12 |-> Lit("0.0"), al21 |-> Lit("0.3"),
        a12 |-> Lit("2.7321"), a21 |-> Lit("-0.693"), M1 |-> Lit("18.02"), M2 |-> Lit("32.04"),
        c1 |-> <<Lit("7.20389"), Lit("-1733.926"), Lit("-39.485")>>,
        c2 |-> <<Lit("7.2209903"), Lit("-1590.15535"), Lit("-32.77001")>>]
PP(T, w) == LET x == ToMolar(w, Mix.M1, Mix.M2)
                g == NRTL(Mix, T, x)
            IN <<FMul(FMul(Antoine(Mix.c1, T), g[1]), x), FMul(FMul(Antoine(Mix.c2, T), g[2]), FSub(One, x))>>
In == [T |-> Lit("337.8066307991813"), x |-> Lit("0.14931572572338198"), p1 |-> Lit("0.13283648008448262"),
       p2 |-> Lit("0.9886365464673125"), prec |-> Lit("1.5561689067822504e-05"), Tp |-> Lit("330.97111553718594")]
PF == PP(In.T, In.x)
Y(J) == FDiv(J[1], FAdd(J[1], J[2]))
G(y) == LET pp == PP(In.Tp, y) IN <<FMul(In.p1, FSub(PF[1], pp[1])), FMul(In.p2, FSub(PF[2], pp[2]))>>
VARIABLES y, d, n, pc
vars == <<y, d, n, pc>>
Init == y = Y(<<FMul(In.p1, PF[1]), FMul(In.p2, PF[2])>>) /\ d = One /\ n = 0 /\ pc = "loop"
Iterate == /\ pc = "loop" /\ ~FLt(d, In.prec)
           /\ LET yn == Y(G(y)) IN y' = yn /\ d' = FAbs(FSub(yn, y))
           /\ n' = n + 1 /\ pc' = pc
Exit == pc = "loop" /\ FLt(d, In.prec) /\ pc' = "returned" /\ UNCHANGED <<y, d, n>>
Next == Iterate \/ Exit
Spec == Init /\ [][Next]_vars /\ WF_vars(Next)
View == <<y, d, pc>>
Terminates == <>(pc = "returned")
=============================================================================
