import time, sys
sys.path.insert(0, '/repo')
import pyvaporation as pv
from pyvaporation import *
print(pv.__file__)
def mem(mix, p1=0.05, p2=0.0005, ea1=20000, ea2=50000, T=323.15):
    ex = [IdealExperiment(name="m", temperature=T, component=mix.first_component, permeance=Permeance(p1), activation_energy=ea1),
          IdealExperiment(name="m", temperature=T, component=mix.second_component, permeance=Permeance(p2), activation_energy=ea2)]
    return Membrane(name="m", ideal_experiments=IdealExperiments(experiments=ex))
mix = Mixtures.H2O_EtOH
pvp = Pervaporation(membrane=mem(mix), mixture=mix)
t=time.time()
for i in range(200):
    f = pvp.calculate_partial_fluxes(323.15, Composition(0.1+0.004*i, CompositionType.weight), permeate_temperature=280.0)
print("flux calc", (time.time()-t)/200, f)
# C08 defect: calc type ignored by helpers
for ct in ("NRTL","UNIQUAC"):
    f = pvp.calculate_partial_fluxes(323.15, Composition(0.3,"weight"), precision=5e-5, calculation_type=ct)
    y = pvp.calculate_permeate_composition(323.15, Composition(0.3,"weight"), calculation_type=ct)
    dc = pvp.ideal_diffusion_curve(323.15, [Composition(0.3,"weight")], calculation_type=ct)
    print(ct, f, f[0]/sum(f), y.p, dc.partial_fluxes)
cond = Conditions(membrane_area=0.5, initial_feed_temperature=323.15, initial_feed_amount=2.0, initial_feed_composition=Composition(0.3,"weight"), permeate_temperature=280.0)
t=time.time()
m1 = pvp.ideal_isothermal_process(number_of_steps=10, delta_hours=0.2, conditions=cond)
print("iso 10 steps", time.time()-t)
m2 = pvp.ideal_non_isothermal_process(number_of_steps=10, delta_hours=0.2, conditions=cond)
print("evap heat iso vs noniso step0:", m1.feed_evaporation_heat[0], m2.feed_evaporation_heat[0])
print("cond heat iso vs noniso step0:", m1.permeate_condensation_heat[0], m2.permeate_condensation_heat[0])
print(m1.partial_fluxes[0], m2.partial_fluxes[0])
