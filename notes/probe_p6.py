import sys, numpy as np, time, warnings
sys.path.insert(0, '/repo')
from pyvaporation import *
from pyvaporation.mixtures import VLEPoints, fit_vle
mix = Mixtures.H2O_EtOH
def mem(mix, p1, p2, T):
    ex = [IdealExperiment(name="m", temperature=T, component=mix.first_component, permeance=Permeance(p1), activation_energy=2e4),
          IdealExperiment(name="m", temperature=T, component=mix.second_component, permeance=Permeance(p2), activation_energy=3e4)]
    return Membrane(name="m", ideal_experiments=IdealExperiments(experiments=ex))
def curve(T, npts):
    xs = [0.05+0.9*i/(npts-1) for i in range(npts)]
    return DiffusionCurve(mixture=mix, membrane_name="m", feed_temperature=T, feed_compositions=[Composition(x,"weight") for x in xs],
        permeances=[(Permeance(0.05*np.exp(0.8*x - 2400*(1/T-1/320))), Permeance(0.0005*np.exp(-0.5*x - 3600*(1/T-1/320)))) for x in xs])
pvp = Pervaporation(mem(mix,0.05,0.0005,323.15), mix)
cond = Conditions(membrane_area=0.5, initial_feed_temperature=323.15, initial_feed_amount=2.0, initial_feed_composition=Composition(0.3,"weight"))
warnings.simplefilter("ignore")
for ncurves, npts in [(1,4),(1,6),(2,4),(2,6),(3,5)]:
    cs = DiffusionCurveSet(name="s", diffusion_curves=[curve(313.15+10*i, npts) for i in range(ncurves)])
    t=time.time()
    with np.errstate(all='ignore'):
        m = pvp.non_ideal_non_isothermal_process(conditions=cond, diffusion_curve_set=cs, number_of_steps=5, delta_hours=0.1)
    print(ncurves, npts, "nonideal noniso %.2fs"%(time.time()-t), m.permeance_fits[0].n, m.permeance_fits[0].m, m.permeances[0][0].value, m.permeances[-1][0].value)
    t=time.time()
    with np.errstate(all='ignore'):
        m = pvp.non_ideal_isothermal_process(conditions=cond, diffusion_curve_set=cs, number_of_steps=5, delta_hours=0.1, n_first=1, n_second=1, m_first=1, m_second=1)
    print("   explicit n=m=1 iso %.2fs"%(time.time()-t))
t=time.time()
d = VLEPoints.from_csv("/repo/tests/VLE_data/binary/H2O_EtOH.csv")
with np.errstate(all='ignore'):
    r = fit_vle(d, method="Powell")
print("fit_vle Powell %.2fs"%(time.time()-t), len(d), r)
t=time.time()
with np.errstate(all='ignore'):
    r = fit_vle(d)
print("fit_vle all %.2fs"%(time.time()-t), r)
