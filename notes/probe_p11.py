import sys, numpy as np, warnings
sys.path.insert(0, sys.argv[1])
from pyvaporation import *
from pyvaporation.utils import NRTLParameters, UNIQUACParameters
from pyvaporation.mixtures.mixture import calculate_activity_coefficients
warnings.simplefilter("ignore")
mix = Mixtures.H2O_EtOH
def mem(mix, p1, p2, T, ea=2e4, n=1):
    ex=[]
    for j in range(n):
        ex += [IdealExperiment(name="m", temperature=T+10*j, component=mix.first_component, permeance=Permeance(p1*(1+j)), activation_energy=ea),
               IdealExperiment(name="m", temperature=T+10*j, component=mix.second_component, permeance=Permeance(p2*(1+j)), activation_energy=ea)]
    return Membrane(name="m", ideal_experiments=IdealExperiments(experiments=ex))
def curve(T, npts):
    xs = [0.05+0.9*i/(npts-1) for i in range(npts)]
    return DiffusionCurve(mixture=mix, membrane_name="m", feed_temperature=T, feed_compositions=[Composition(x,"weight") for x in xs],
        permeances=[(Permeance(0.05*np.exp(0.8*x - 2400*(1/T-1/320))), Permeance(0.0005*np.exp(-0.5*x - 3600*(1/T-1/320)))) for x in xs])
pvp = Pervaporation(mem(mix,0.05,0.0005,323.15), mix)
cs = DiffusionCurveSet(name="s", diffusion_curves=[curve(313.15, 5), curve(333.15,5)])
both = dict(permeate_temperature=280.0, permeate_pressure=0.5)
cond = Conditions(membrane_area=0.5, initial_feed_temperature=323.15, initial_feed_amount=2.0, initial_feed_composition=Composition(0.3,"weight"), **both)
x = Composition(0.3,"weight")
tests = {
 "pf_from_y": lambda: pvp.get_partial_fluxes_from_permeate_composition(Permeance(0.05),Permeance(0.0005),Composition(0.9,"weight"),x,323.15,**both),
 "flux": lambda: pvp.calculate_partial_fluxes(323.15,x,**both),
 "ycomp": lambda: pvp.calculate_permeate_composition(323.15,x,**both),
 "sepf": lambda: pvp.calculate_separation_factor(323.15,x,**both),
 "idealcurve": lambda: pvp.ideal_diffusion_curve(323.15,[x],**both),
 "nicurve": lambda: pvp.non_ideal_diffusion_curve(cs,323.15,x,0.01,3,**both),
 "iso": lambda: pvp.ideal_isothermal_process(number_of_steps=2,delta_hours=0.1,conditions=cond),
 "noniso": lambda: pvp.ideal_non_isothermal_process(number_of_steps=2,delta_hours=0.1,conditions=cond),
 "ni_iso": lambda: pvp.non_ideal_isothermal_process(number_of_steps=2,delta_hours=0.1,conditions=cond,diffusion_curve_set=cs),
 "ni_noniso": lambda: pvp.non_ideal_non_isothermal_process(number_of_steps=2,delta_hours=0.1,conditions=cond,diffusion_curve_set=cs),
 "pureflux": lambda: pvp.membrane.get_estimated_pure_component_flux(323.15, Components.H2O, **both),
 "curve_from_fluxes": lambda: DiffusionCurve(mixture=mix, membrane_name="m", feed_temperature=323.15, feed_compositions=[x], partial_fluxes=[(0.1,0.01)], **both),
 "mixture_noparams": lambda: Mixture(name="x", first_component=Components.H2O, second_component=Components.EtOH),
 "nrtl_missing": lambda: calculate_activity_coefficients(323.15, Mixture(name="x", first_component=Components.H2O, second_component=Components.EtOH, uniquac_params=mix.uniquac_params), x, "NRTL"),
 "uniquac_missing": lambda: calculate_activity_coefficients(323.15, Mixture(name="x", first_component=Components.H2O, second_component=Components.EtOH, nrtl_params=mix.nrtl_params), x, "UNIQUAC"),
 "uniquac_consts_missing": lambda: calculate_activity_coefficients(323.15, Mixture(name="x", first_component=Components.H2O, second_component=Components.DME, uniquac_params=mix.uniquac_params), x, "UNIQUAC"),
 "curve_neither": lambda: DiffusionCurve(mixture=mix, membrane_name="m", feed_temperature=323.15, feed_compositions=[x]),
 "ea_one_exp": lambda: Membrane(name="m", ideal_experiments=IdealExperiments(experiments=[IdealExperiment(name="m", temperature=300.0, component=Components.H2O, permeance=Permeance(0.1))])).calculate_activation_energy(Components.H2O),
 "perm_one_exp_otherT": lambda: Membrane(name="m", ideal_experiments=IdealExperiments(experiments=[IdealExperiment(name="m", temperature=300.0, component=Components.H2O, permeance=Permeance(0.1))])).get_permeance(310.0, Components.H2O),
 "ea_zero_exp": lambda: Membrane(name="m", ideal_experiments=IdealExperiments(experiments=[IdealExperiment(name="m", temperature=300.0, component=Components.EtOH, permeance=Permeance(0.1))])).calculate_activation_energy(Components.H2O),
 "convert_nocomp": lambda: Permeance(1.0,"SI").convert("kg/(m2*h*kPa)"),
 "convert_nocomp2": lambda: Permeance(1.0).convert("SI"),
 "convert_unknown": lambda: Permeance(1.0,"SI").convert("foo", Components.H2O),
 "convert_unknown_from": lambda: Permeance(1.0,"foo").convert("SI", Components.H2O),
 "comp_out": lambda: Composition(1.0000001,"weight"),
 "comp_neg": lambda: Composition(-1e-12,"weight"),
}
for k,f in tests.items():
    try:
        r=f(); print(k,"-> RETURNED", str(r)[:80])
    except Exception as e:
        print(k,"->",type(e).__name__, str(e)[:60])
