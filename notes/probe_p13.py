import sys, numpy as np, warnings, random, copy, pickle, hashlib
sys.path.insert(0, sys.argv[1])
from pyvaporation import *
warnings.simplefilter("ignore")
mix = Mixtures.H2O_EtOH
def digest(o, seen=None):
    # deep structural digest
    import attr
    if seen is None: seen=set()
    if isinstance(o,(int,str,bool,type(None))): return repr(o)
    if isinstance(o,float): return float(o).hex()
    if isinstance(o,np.generic): return float(o).hex()
    if isinstance(o,np.ndarray): return "nd"+str([digest(v) for v in o.tolist()])
    if isinstance(o,(list,tuple)): return type(o).__name__+"["+",".join(digest(v,seen) for v in o)+"]"
    if isinstance(o,dict): return "{"+",".join(k+":"+digest(v,seen) for k,v in sorted(o.items()))+"}"
    if attr.has(type(o)): return type(o).__name__+"("+",".join(a.name+"="+digest(getattr(o,a.name),seen) for a in attr.fields(type(o)))+")"
    return repr(o)
def mem(mix, p1, p2, T):
    ex=[]
    for j in range(2):
        ex += [IdealExperiment(name="m", temperature=T+10*j, component=mix.first_component, permeance=Permeance(p1*(1+j)), activation_energy=2e4),
               IdealExperiment(name="m", temperature=T+10*j, component=mix.second_component, permeance=Permeance(p2*(1+j)), activation_energy=3e4)]
    return Membrane(name="m", ideal_experiments=IdealExperiments(experiments=ex))
def curve(T, npts, basis="weight"):
    xs = [0.05+0.9*i/(npts-1) for i in range(npts)]
    return DiffusionCurve(mixture=mix, membrane_name="m", feed_temperature=T, feed_compositions=[Composition(x,basis) for x in xs],
        permeances=[(Permeance(0.05*np.exp(0.8*x - 2400*(1/T-1/320))), Permeance(0.0005*np.exp(-0.5*x - 3600*(1/T-1/320)))) for x in xs])
membrane = mem(mix,0.05,0.0005,313.15)
pvp = Pervaporation(membrane, mix)
cs2 = DiffusionCurveSet(name="s", diffusion_curves=[curve(313.15, 5), curve(333.15,5)])
cs1 = DiffusionCurveSet(name="s1", diffusion_curves=[curve(313.15, 5,"molar")])
cond = Conditions(membrane_area=0.5, initial_feed_temperature=323.15, initial_feed_amount=2.0, initial_feed_composition=Composition(0.3,"molar"), permeate_temperature=280.0,
                  temperature_program=TemperatureProgram(coefficients=[323.15,-2.0]))
x = Composition(0.3,"weight")
shared = dict(membrane=membrane, mix=mix, cs2=cs2, cs1=cs1, cond=cond, x=x, comps=[Components.H2O, Components.EtOH], mixtures=[getattr(Mixtures,n) for n in dir(Mixtures) if not n.startswith("_")])
calls = {
 "flux": lambda: pvp.calculate_partial_fluxes(323.15,x,permeate_temperature=280.0,calculation_type="UNIQUAC"),
 "ycomp": lambda: pvp.calculate_permeate_composition(323.15,x),
 "idealcurve": lambda: pvp.ideal_diffusion_curve(323.15,[x, Composition(0.5,"molar")],permeate_pressure=0.3).permeances[1][0].value,
 "nicurve2": lambda: pvp.non_ideal_diffusion_curve(cs2,323.15,x,0.01,3, include_zero=True).partial_fluxes[-1],
 "nicurve1": lambda: pvp.non_ideal_diffusion_curve(cs1,323.15,x,0.01,3).partial_fluxes[-1],
 "iso": lambda: pvp.ideal_isothermal_process(number_of_steps=3,delta_hours=0.1,conditions=cond).feed_mass[-1],
 "noniso": lambda: pvp.ideal_non_isothermal_process(number_of_steps=3,delta_hours=0.1,conditions=cond).feed_temperature[-1],
 "ni_iso1": lambda: pvp.non_ideal_isothermal_process(number_of_steps=3,delta_hours=0.1,conditions=cond,diffusion_curve_set=cs1).permeances[-1][0].value,
 "ni_noniso2": lambda: pvp.non_ideal_non_isothermal_process(number_of_steps=3,delta_hours=0.1,conditions=cond,diffusion_curve_set=cs2, include_zero=True).permeances[-1][1].value,
 "ni_noniso1": lambda: pvp.non_ideal_non_isothermal_process(number_of_steps=3,delta_hours=0.1,conditions=cond,diffusion_curve_set=cs1).permeances[-1][1].value,
 "sel": lambda: cs2[0].get_selectivity[0],
 "getperm": lambda: cs2[0].get_permeances[0][0].value,
}
rng=random.Random(1)
first={}
base=digest(shared)
for k,f in calls.items():
    with np.errstate(all='ignore'):
        first[k]=digest(f())
    d=digest(shared)
    if d!=base: print("MUTATION after first",k); base=d
for it in range(30):
    k=rng.choice(list(calls))
    with np.errstate(all='ignore'):
        r=digest(calls[k]())
    if r!=first[k]: print("RESULT CHANGED",k)
    d=digest(shared)
    if d!=base: print("MUTATION after",k); base=d
print("done")
