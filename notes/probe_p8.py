import sys, numpy as np, random, warnings, copy
sys.path.insert(0, sys.argv[1])
from pyvaporation import *
from pyvaporation.utils import NRTLParameters, UNIQUACParameters
warnings.simplefilter("ignore")
rng = random.Random(3)
names = ["H2O_MeOH","H2O_EtOH","H2O_iPOH","H2O_AceticAcid","EtOH_ETBE","MeOH_Toluene","MeOH_MTBE","MeOH_DMC"]
def swapmix(m):
    n=m.nrtl_params
    return Mixture(name=m.name+"_sw", first_component=m.second_component, second_component=m.first_component,
        nrtl_params=NRTLParameters(g12=n.g21,g21=n.g12,alpha12=(n.alpha12 if n.alpha21 is None else n.alpha21),alpha21=(None if n.alpha21 is None else n.alpha12),a12=n.a21,a21=n.a12))
def mem(mix, p1, p2, T, ea1=2e4, ea2=3e4):
    ex = [IdealExperiment(name="m", temperature=T, component=mix.first_component, permeance=Permeance(p1), activation_energy=ea1),
          IdealExperiment(name="m", temperature=T, component=mix.second_component, permeance=Permeance(p2), activation_energy=ea2)]
    return Membrane(name="m", ideal_experiments=IdealExperiments(experiments=ex))
def rel(a,b): return abs(a-b)/max(abs(a),abs(b),1e-300)
worst = {}
def upd(k,v,info=None):
    if v>worst.get(k,(0,None))[0]: worst[k]=(v,info)
for it in range(300):
    mix = getattr(Mixtures, rng.choice(names)); sm = swapmix(mix)
    T = rng.uniform(290,370); x=rng.uniform(0.05,0.95); p1=10**rng.uniform(-4,-1); p2=10**rng.uniform(-4,-1)
    mode = rng.choice(["vac","pt","pp"])
    kw = {} 
    if mode=="pt": kw=dict(permeate_temperature=rng.uniform(200,T-30))
    if mode=="pp": kw=dict(permeate_pressure=rng.uniform(0,1.0))
    A=rng.uniform(0.05,1); m0=rng.uniform(1,5); dt=rng.uniform(0.01,0.1)
    pa = Pervaporation(mem(mix,p1,p2,T), mix); pb = Pervaporation(mem(sm,p2,p1,T,3e4,2e4), sm)
    ca = Conditions(membrane_area=A, initial_feed_temperature=T, initial_feed_amount=m0, initial_feed_composition=Composition(x,"weight"), **kw)
    cb = Conditions(membrane_area=A, initial_feed_temperature=T, initial_feed_amount=m0, initial_feed_composition=Composition(1-x,"weight"), **kw)
    try:
        for kind in ("ideal_isothermal_process","ideal_non_isothermal_process"):
            ma = getattr(pa,kind)(number_of_steps=5, delta_hours=dt, conditions=ca)
            mb = getattr(pb,kind)(number_of_steps=5, delta_hours=dt, conditions=cb)
            for k in range(5):
                upd(("C06",kind,"flux"), max(rel(ma.partial_fluxes[k][0], mb.partial_fluxes[k][1]), rel(ma.partial_fluxes[k][1], mb.partial_fluxes[k][0])))
                upd(("C06",kind,"mass"), rel(ma.feed_mass[k], mb.feed_mass[k]))
                upd(("C06",kind,"T"), rel(ma.feed_temperature[k], mb.feed_temperature[k]))
                upd(("C06",kind,"Qe"), rel(ma.feed_evaporation_heat[k], mb.feed_evaporation_heat[k]), (mix.name,mode))
                if mode=="pt": upd(("C06",kind,"Qc"), rel(ma.permeate_condensation_heat[k], mb.permeate_condensation_heat[k]))
            # C11 scale
            kf = rng.choice([0.001, 0.5, 3.0, 1000.0])
            cs = Conditions(membrane_area=A*kf, initial_feed_temperature=T, initial_feed_amount=m0*kf, initial_feed_composition=Composition(x,"weight"), **kw)
            ms = getattr(pa,kind)(number_of_steps=5, delta_hours=dt, conditions=cs)
            for k in range(5):
                upd(("C11",kind,"mass"), rel(ma.feed_mass[k]*kf, ms.feed_mass[k]))
                upd(("C11",kind,"T"), rel(ma.feed_temperature[k], ms.feed_temperature[k]))
                upd(("C11",kind,"Qe"), rel(ma.feed_evaporation_heat[k]*kf, ms.feed_evaporation_heat[k]))
            ct = Conditions(membrane_area=A*kf, initial_feed_temperature=T, initial_feed_amount=m0, initial_feed_composition=Composition(x,"weight"), **kw)
            mt = getattr(pa,kind)(number_of_steps=5, delta_hours=dt/kf, conditions=ct)
            for k in range(5):
                upd(("C11t",kind,"mass"), rel(ma.feed_mass[k], mt.feed_mass[k]))
                upd(("C11t",kind,"T"), rel(ma.feed_temperature[k], mt.feed_temperature[k]))
            # C07 basis
            cm = Conditions(membrane_area=A, initial_feed_temperature=T, initial_feed_amount=m0, initial_feed_composition=Composition(x,"weight").to_molar(mix), **kw)
            mm = getattr(pa,kind)(number_of_steps=5, delta_hours=dt, conditions=cm)
            for k in range(5):
                upd(("C07",kind,"mass"), rel(ma.feed_mass[k], mm.feed_mass[k]))
        # C09 inversion
        comps=[Composition(x,"weight")]
        cur = pa.ideal_diffusion_curve(T, comps, precision=1e-11, **kw)
        upd(("C09",mode,"perm"), max(rel(cur.permeances[0][0].value,p1), rel(cur.permeances[0][1].value,p2)), (mix.name,T,x,kw))
        # C08 sepfactor molar vs weight
        sfw = pa.calculate_separation_factor(T, Composition(x,"weight"), **kw)
        sfm = pa.calculate_separation_factor(T, Composition(x,"weight").to_molar(mix), **kw)
        upd(("C07","sepf",""), rel(sfw,sfm))
    except ValueError as e:
        pass
for k in sorted(worst): print(k, "%.2e"%worst[k][0], worst[k][1])
