import sys, numpy as np, random, json
sys.path.insert(0, '/repo')
from pyvaporation import *
class Budget(Exception): pass
orig = Pervaporation.get_partial_fluxes_from_permeate_composition
cnt=[0]; ys=[]
def wrap(self, *a, **k):
    cnt[0]+=1; ys.append(k['permeate_composition'].p)
    if cnt[0] > 3000: raise Budget()
    return orig(self, *a, **k)
Pervaporation.get_partial_fluxes_from_permeate_composition = wrap
names = ["H2O_MeOH","H2O_EtOH","H2O_iPOH","H2O_AceticAcid","EtOH_ETBE","MeOH_Toluene","MeOH_MTBE","MeOH_DMC"]
def mem(mix, p1, p2, T):
    ex = [IdealExperiment(name="m", temperature=T, component=mix.first_component, permeance=Permeance(p1), activation_energy=1e4),
          IdealExperiment(name="m", temperature=T, component=mix.second_component, permeance=Permeance(p2), activation_energy=1e4)]
    return Membrane(name="m", ideal_experiments=IdealExperiments(experiments=ex))
rng = random.Random(5)
found=[]
for i in range(60000):
    mix = getattr(Mixtures, rng.choice(names))
    T = rng.uniform(273,400); x = rng.uniform(0.001,0.999)
    p1 = 10**rng.uniform(-6,0); p2 = 10**rng.uniform(-6,0)
    prec = 10**rng.uniform(-8,-3); Tp = rng.uniform(120,T)
    cnt[0]=0; ys.clear()
    try:
        with np.errstate(all='ignore'):
            Pervaporation(mem(mix,p1,p2,T),mix).calculate_partial_fluxes(T, Composition(x,"weight"), precision=prec, first_component_permeance=Permeance(p1), second_component_permeance=Permeance(p2), permeate_temperature=Tp)
    except Budget:
        found.append(dict(mix=mix.name,T=T,x=x,p1=p1,p2=p2,prec=prec,Tp=Tp, tail=[float(v) for v in ys[-4:]]))
        if len(found)>=4: break
    except Exception: pass
print(i, json.dumps(found, indent=0))
