import sys, numpy as np, random, time
sys.path.insert(0, '/repo')
from pyvaporation import *
class Budget(Exception): pass
orig = Pervaporation.get_partial_fluxes_from_permeate_composition
cnt = [0]
def wrap(self, *a, **k):
    cnt[0]+=1
    if cnt[0] > 5000: raise Budget()
    return orig(self, *a, **k)
Pervaporation.get_partial_fluxes_from_permeate_composition = wrap
names = ["H2O_MeOH","H2O_EtOH","H2O_iPOH","H2O_AceticAcid","EtOH_ETBE","MeOH_Toluene","MeOH_MTBE","MeOH_DMC"]
def mem(mix, p1, p2, T):
    ex = [IdealExperiment(name="m", temperature=T, component=mix.first_component, permeance=Permeance(p1), activation_energy=1e4),
          IdealExperiment(name="m", temperature=T, component=mix.second_component, permeance=Permeance(p2), activation_energy=1e4)]
    return Membrane(name="m", ideal_experiments=IdealExperiments(experiments=ex))
rng = random.Random(1)
res = {}
t0=time.time()
N=int(sys.argv[1])
bad=[]
for i in range(N):
    mix = getattr(Mixtures, rng.choice(names)); ct = rng.choice(["NRTL","UNIQUAC"])
    T = rng.uniform(273,400); x = rng.uniform(0.001,0.999)
    p1 = 10**rng.uniform(-6,0); p2 = 10**rng.uniform(-6,0)
    mode = rng.choice(["pt","pp"])
    prec = 10**rng.uniform(-8,-3)
    kw = {}
    if mode=="pt": kw["permeate_temperature"]=rng.uniform(120,T)
    else: kw["permeate_pressure"]=rng.uniform(0,100)
    cnt[0]=0
    key=(ct,mode)
    try:
        with np.errstate(all='ignore'):
            f = Pervaporation(mem(mix,p1,p2,T),mix).calculate_partial_fluxes(T, Composition(x,"weight"), precision=prec, first_component_permeance=Permeance(p1), second_component_permeance=Permeance(p2), calculation_type=ct, **kw)
        r="ok"
    except Budget:
        r="NONTERM"; bad.append((mix.name,ct,T,x,p1,p2,mode,kw,prec))
    except Exception as e:
        r=type(e).__name__
    res.setdefault(key,{}).setdefault(r,0); res[key][r]+=1
print(time.time()-t0)
for k,v in res.items(): print(k,v)
for b in bad[:6]: print(b)
