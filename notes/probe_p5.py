import sys, numpy as np, tempfile, os, pathlib, traceback
sys.path.insert(0, '/repo')
from pyvaporation import *
mix = Mixtures.H2O_EtOH
def mem(mix, p1, p2, T, path=None):
    ex = [IdealExperiment(name="m", temperature=T, component=mix.first_component, permeance=Permeance(p1), activation_energy=2e4),
          IdealExperiment(name="m", temperature=T, component=mix.second_component, permeance=Permeance(p2), activation_energy=3e4)]
    return Membrane(name="m", ideal_experiments=IdealExperiments(experiments=ex), path=path)
d = pathlib.Path(tempfile.mkdtemp(dir="/tmp/probe"))
pvp = Pervaporation(mem(mix,0.05,0.0005,323.15,path=d), mix)
cond = Conditions(membrane_area=0.5, initial_feed_temperature=323.15, initial_feed_amount=2.0, initial_feed_composition=Composition(0.3,"molar"), permeate_temperature=280.0)
m = pvp.ideal_non_isothermal_process(number_of_steps=4, delta_hours=0.2, conditions=cond)
for safe in (False, True):
    try:
        m.save(d, is_safe=safe)
    except Exception as e:
        traceback.print_exc()
print(sorted(os.listdir(d/"results")))
for p in sorted((d/"results").iterdir()):
    print(p, sorted(os.listdir(p)))
    for safe in (False, True):
        try:
            l = ProcessModel.load(p, is_safe=safe)
            print(" loaded safe=",safe, type(l.feed_temperature), l.permeate_temperature, l.permeate_pressure, type(l.time), l.permeances[0], l.initial_conditions, l.permeance_fits[0])
            print(" cond heat", list(l.permeate_condensation_heat), m.permeate_condensation_heat)
        except Exception as e:
            print(" load fail safe=",safe, type(e).__name__, e)
# curve
c = pvp.ideal_diffusion_curve(323.15, [Composition(0.1*i,"molar") for i in range(1,5)], permeate_pressure=1.0)
c.save(d/"c.csv")
s = DiffusionCurveSet.load(d/"c.csv")
print(s[0].feed_compositions, [cc.to_weight(mix) for cc in c.feed_compositions])
print(s[0].permeances[0], c.permeances[0], s[0].permeate_pressure, s[0].permeate_temperature)
