import sys, numpy as np
sys.path.insert(0, '/repo')
from pyvaporation import *
from pyvaporation.mixtures.mixture import calculate_activity_coefficients
# D3: Gibbs-Duhem
def gd(mix, T, x, ct, h=1e-6):
    g = lambda x: np.log(calculate_activity_coefficients(T, mix, Composition(x,"molar"), ct))
    d = (g(x+h)-g(x-h))/(2*h)
    return x*d[0] + (1-x)*d[1]
for name in ["H2O_MeOH","H2O_EtOH","H2O_iPOH","H2O_AceticAcid","EtOH_ETBE","MeOH_Toluene","MeOH_MTBE","MeOH_DMC"]:
    mix = getattr(Mixtures, name)
    print(name, "NRTL", ["%.2e"%gd(mix, 330.0, x, "NRTL") for x in (0.1,0.5,0.9)], "UNIQUAC", ["%.2e"%gd(mix, 330.0, x, "UNIQUAC") for x in (0.1,0.5,0.9)],
          "pure limits U:", calculate_activity_coefficients(330.0, mix, Composition(1-1e-9,"molar"), "UNIQUAC")[0], calculate_activity_coefficients(330.0, mix, Composition(1e-9,"molar"), "UNIQUAC")[1])
# D5
from pyvaporation.optimizer import Measurements, Measurement, fit, find_best_fit
ms = Measurements(data=[Measurement(x=0.1*i, t=320.0, p=0.01*np.exp(0.5*i*0.1)) for i in range(1,6)])
n0 = len(ms)
fit(ms, n=1, m=0, include_zero=True)
print("len before/after fit include_zero:", n0, len(ms))
