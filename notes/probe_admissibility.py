import sys, numpy as np, random, warnings
sys.path.insert(0, sys.argv[1])
from pyvaporation import *
def mem(mix, p1, p2, T):
    ex = [IdealExperiment(name="m", temperature=T, component=mix.first_component, permeance=Permeance(p1), activation_energy=2e4),
          IdealExperiment(name="m", temperature=T, component=mix.second_component, permeance=Permeance(p2), activation_energy=3e4)]
    return Membrane(name="m", ideal_experiments=IdealExperiments(experiments=ex))
rng = random.Random(2)
names = ["H2O_MeOH","H2O_EtOH","H2O_iPOH","H2O_AceticAcid","EtOH_ETBE","MeOH_Toluene","MeOH_MTBE","MeOH_DMC"]
out={}
ex=[]
for i in range(3000):
    mix = getattr(Mixtures, rng.choice(names))
    T = rng.uniform(290,370); x=rng.uniform(0.05,0.95)
    p1=10**rng.uniform(-3,0); p2=10**rng.uniform(-3,0)
    pv_ = Pervaporation(mem(mix,p1,p2,T), mix)
    f = pv_.calculate_partial_fluxes(T, Composition(x,"weight"))
    frac = rng.choice([0.1,0.3,0.6,1.0,2.0,5.0,10.0])
    m0 = rng.uniform(0.5,5); A = rng.uniform(0.01,1)
    dt = frac*m0/(sum(f)*A)
    cond = Conditions(membrane_area=A, initial_feed_temperature=T, initial_feed_amount=m0, initial_feed_composition=Composition(x,"weight"))
    kind = rng.choice(["iso","noniso"])
    try:
        with np.errstate(all='ignore'), warnings.catch_warnings():
            warnings.simplefilter("ignore")
            if kind=="iso": m = pv_.ideal_isothermal_process(number_of_steps=6, delta_hours=dt, conditions=cond)
            else: m = pv_.ideal_non_isothermal_process(number_of_steps=6, delta_hours=dt, conditions=cond)
        ok = all(mm>0 for mm in m.feed_mass) and all(0<=c.p<=1 for c in m.feed_compositions) and all(np.isfinite(t) and t>0 for t in m.feed_temperature) and all(np.isfinite(a) and np.isfinite(b) for a,b in m.partial_fluxes)
        r = "ok" if ok else "BAD"
        if not ok and len(ex)<5: ex.append((kind, frac, [round(float(v),4) for v in m.feed_mass], [round(float(v),2) for v in m.feed_temperature], [round(float(c.p),3) for c in m.feed_compositions]))
    except Exception as e:
        r = type(e).__name__
    out.setdefault((kind,frac),{}).setdefault(r,0); out[(kind,frac)][r]+=1
for k in sorted(out): print(k,out[k])
for e in ex: print(e)
