import sys, numpy as np, tempfile, os, pathlib, traceback, warnings, hashlib, math
sys.path.insert(0, sys.argv[1])
from pyvaporation import *
warnings.simplefilter("ignore")
mix = Mixtures.H2O_EtOH
def mem(mix, p1, p2, T, path=None):
    ex = [IdealExperiment(name="m", temperature=T, component=mix.first_component, permeance=Permeance(p1), activation_energy=2e4),
          IdealExperiment(name="m", temperature=T, component=mix.second_component, permeance=Permeance(p2), activation_energy=3e4)]
    return Membrane(name="m", ideal_experiments=IdealExperiments(experiments=ex), path=path)
def curve(T, npts):
    xs = [0.05+0.9*i/(npts-1) for i in range(npts)]
    return DiffusionCurve(mixture=mix, membrane_name="m", feed_temperature=T, feed_compositions=[Composition(x,"weight") for x in xs],
        permeances=[(Permeance(0.05*np.exp(0.8*x - 2400*(1/T-1/320))), Permeance(0.0005*np.exp(-0.5*x - 3600*(1/T-1/320)))) for x in xs])
d = pathlib.Path(tempfile.mkdtemp(dir="/tmp/probe")); (d/"results").mkdir()
pvp = Pervaporation(mem(mix,0.05,0.0005,323.15,path=d), mix)
cs = DiffusionCurveSet(name="s", diffusion_curves=[curve(313.15, 5), curve(333.15,5)])
def tree(p):
    out={}
    for root,_,files in os.walk(p):
        for f in files:
            fp=os.path.join(root,f); out[fp]=hashlib.md5(open(fp,'rb').read()).hexdigest()
    return out
def num(v):
    if v is None: return None
    try:
        if isinstance(v,float) and math.isnan(v): return None
    except: pass
    return float(v)
def cmp(name,a,b,issues):
    a=[num(v) for v in a]; b=[num(v) for v in b]
    if len(a)!=len(b): issues.append((name,"len",len(a),len(b))); return
    for i,(u,v) in enumerate(zip(a,b)):
        if (u is None)!=(v is None): issues.append((name,i,u,v)); return
        if u is not None and abs(u-v)>1e-9*max(abs(u),abs(v)): issues.append((name,i,u,v)); return
for kw in (dict(permeate_temperature=280.0), dict(permeate_pressure=0.7), dict()):
  for basis in ("weight","molar"):
    cond = Conditions(membrane_area=0.5, initial_feed_temperature=323.15, initial_feed_amount=2.0, initial_feed_composition=Composition(0.3,basis), **kw)
    models = {"iso": pvp.ideal_isothermal_process(number_of_steps=4, delta_hours=0.2, conditions=cond),
              "noniso": pvp.ideal_non_isothermal_process(number_of_steps=4, delta_hours=0.2, conditions=cond),
              "ni_iso": pvp.non_ideal_isothermal_process(number_of_steps=4, delta_hours=0.2, conditions=cond, diffusion_curve_set=cs, initial_permeances=(Permeance(0.04),Permeance(0.0004))),
              "ni_noniso": pvp.non_ideal_non_isothermal_process(number_of_steps=4, delta_hours=0.2, conditions=cond, diffusion_curve_set=cs)}
    for name,m in models.items():
        for safe in (False,True):
            before = tree(d/"results")
            existing=set(os.listdir(d/"results"))
            try:
                m.save(d, is_safe=safe)
            except Exception as e:
                print(name,safe,"save fail",type(e).__name__,e); continue
            after = tree(d/"results")
            for k,v in before.items():
                if after.get(k)!=v: print("OLD DIR CHANGED",k)
            new = set(os.listdir(d/"results"))-existing
            assert len(new)==1, new
            l = ProcessModel.load(d/"results"/new.pop(), is_safe=safe)
            issues=[]
            cmp("time",m.time,l.time,issues); cmp("mass",m.feed_mass,l.feed_mass,issues); cmp("T",m.feed_temperature,l.feed_temperature,issues)
            cmp("x",[c.p for c in m.feed_compositions],[c.p for c in l.feed_compositions],issues)
            cmp("y",[c.p for c in m.permeate_composition],[c.p for c in l.permeate_composition],issues)
            cmp("J1",[f[0] for f in m.partial_fluxes],[f[0] for f in l.partial_fluxes],issues)
            cmp("J2",[f[1] for f in m.partial_fluxes],[f[1] for f in l.partial_fluxes],issues)
            cmp("P1",[p[0].value for p in m.permeances],[p[0].value for p in l.permeances],issues)
            cmp("P2",[p[1].value for p in m.permeances],[p[1].value for p in l.permeances],issues)
            cmp("Qe",m.feed_evaporation_heat,l.feed_evaporation_heat,issues)
            cmp("Qc",m.permeate_condensation_heat,l.permeate_condensation_heat,issues)
            pt = l.permeate_temperature; pp = l.permeate_pressure
            if num(pt)!=num(m.permeate_temperature[0]) or num(pp)!=num(m.permeate_pressure[0]): issues.append(("permcond",pt,pp))
            ic=l.initial_conditions; oc=m.initial_conditions
            for f in ("membrane_area","initial_feed_temperature","initial_feed_amount","permeate_temperature","permeate_pressure"):
                if num(getattr(ic,f))!=num(getattr(oc,f)): issues.append(("ic",f))
            if ic.initial_feed_composition!=oc.initial_feed_composition: issues.append(("ic comp",ic.initial_feed_composition,oc.initial_feed_composition))
            for i in (0,1):
                a=m.permeance_fits[i]; b=l.permeance_fits[i]
                if (a.n,a.m)!=(b.n,b.m) or abs(a.alpha-b.alpha)>1e-9*abs(a.alpha) or list(map(float,a.a))!=list(map(float,b.a)) or list(map(float,a.b))!=list(map(float,b.b)): issues.append(("fit",i,a,b))
            if l.mixture is not m.mixture: issues.append(("mixture",))
            if [p[0].units for p in l.permeances]!=[p[0].units for p in m.permeances]: issues.append(("units",))
            if issues: print(name,safe,kw,basis,issues[:3])
print("done", len(os.listdir(d/"results")))
