"""Process-model recorder (C01, C03, C05, C08, C11, C18, twins for C06/C07): scenarios, execution of the four
process models of the real code, and per-step traces with oracle values taken from the public API at the
reported state."""
import copy
import math

from . import gen
from .gen import pv
from .rec_activity import mix_desc
from .trace import F

KINDS = ["ideal_iso", "ideal_noniso", "nonideal_iso", "nonideal_noniso"]
KG = "kg/(m2*h*kPa)"
R = 8.314462


# ----------------------------------------------------------------------------- building blocks
def make_membrane(rng, mix, n_exp=None, stated=True):
    """Ideal experiments for both components (kg units), 1..3 temperatures each."""
    exps = []
    for comp in (mix.first_component, mix.second_component):
        n = n_exp or rng.choice([1, 1, 2, 3])
        ea = rng.uniform(-20000.0, 90000.0)
        p0, t0 = gen.logu(rng, 1e-5, 0.3), rng.uniform(290.0, 360.0)
        temps = []
        while len(temps) < n:
            t = round(rng.uniform(283.0, 373.0), 2)
            if all(abs(t - u) > 4.0 for u in temps):
                temps.append(t)
        for j, t in enumerate(temps):
            p = p0 * math.exp(-ea / R * (1 / t - 1 / t0)) * (1.0 if n == 1 else rng.uniform(0.9, 1.1))
            units = gen.tstr(rng, rng.choice([KG, KG, "SI", "GPU"]))
            exps.append(pv.IdealExperiment(name="e", temperature=t, component=comp,
                                           permeance=pv.Permeance(value=p).convert(units, comp),
                                           activation_energy=(ea if (stated or n == 1) else None)))
    rng.shuffle(exps)
    return pv.Membrane(name="verif_membrane", ideal_experiments=pv.IdealExperiments(experiments=exps))


def make_curve_set(rng, mix, n_curves=None, n_points=None, ctype="weight", t_center=None, cluster_p=0.15):
    """A synthetic diffusion-curve set with composition- (and temperature-) dependent permeances."""
    n_curves = n_curves or rng.choice([1, 1, 2, 3])
    n_points = n_points or rng.randrange(4, 7)
    t_center = t_center or rng.uniform(300.0, 350.0)
    temps = [t_center] if n_curves == 1 else sorted(t_center + 12.0 * (j - (n_curves - 1) / 2) for j in range(n_curves))
    if n_curves >= 2 and rng.random() < 0.12:
        temps = [t_center] * n_curves          # several curves measured at ONE temperature: still a multi-curve set
    al = [gen.logu(rng, 1e-3, 0.2), gen.logu(rng, 1e-5, 1e-2)]
    a = [rng.uniform(-2.0, 2.0), rng.uniform(-2.0, 2.0)]
    ea = [rng.uniform(5000.0, 40000.0), rng.uniform(5000.0, 60000.0)]
    lo = rng.uniform(0.03, 0.3)
    hi = rng.uniform(0.6, 0.97)
    xs = [lo + (hi - lo) * j / (n_points - 1) for j in range(n_points)]
    if rng.random() < cluster_p:
        # clustered measurements: a further point a hair (1e-5 .. 3e-3 of mass fraction) above an existing one - also next to the
        # water-rich / water-lean end, where a small step in one basis is a large one in the other
        if rng.random() < 0.5:
            xs[-1] = rng.uniform(0.97, 0.995)
        k = rng.randrange(len(xs))
        xs.insert(k + 1, min(0.9995, xs[k] + gen.logu(rng, 1e-5, 3e-3)))
        n_points = len(xs)
    curves = []
    # "not detectable": one or two measured permeances of the set are exactly 0 (they are data like any other point)
    zeros = set()
    if rng.random() < 0.12:
        for _ in range(rng.choice([1, 1, 2])):
            zeros.add((rng.randrange(len(temps)), rng.randrange(n_points), rng.randrange(2)))
    for it, t in enumerate(temps):
        comps, perms = [], []
        for ix, xw in enumerate(xs):
            cw = pv.Composition(p=xw, type="weight")
            comps.append(cw if ctype == "weight" else cw.to_molar(mix))
            sct = 1.0 + 0.03 * it if len(set(temps)) < len(temps) else 1.0      # replicate curves differ by a few per cent
            perms.append(tuple(pv.Permeance(value=0.0 if (it, ix, i) in zeros else sct * al[i] * math.exp(a[i] * xw - ea[i] / R * (1 / t - 1 / t_center)))
                               for i in range(2)))
        curves.append(pv.DiffusionCurve(mixture=mix, membrane_name="verif_membrane", feed_temperature=t,
                                        feed_compositions=comps, permeances=perms))
    return pv.DiffusionCurveSet(name="synthetic", diffusion_curves=curves)


def make_extreme_program(rng, T0, horizon, mix=None, last_time=None, aim_pole=False):
    """programmes that leave the physical range within the run: down to a few kelvin, overflowing, or undefined"""
    h = max(horizon, 1e-9)
    T0 = float(T0)
    u = rng.random()
    if mix is not None and last_time and (aim_pole or rng.random() < 0.3):
        # aimed at the pole of an Antoine equation, log10 Psat = a + b / (T + c): a few kelvin below T = -c the vapour pressure of
        # that component - and with it the flux and the heat of evaporation - runs through the top of the floating-point range;
        # the LAST REPORTED state is placed there
        comp = rng.choice([mix.first_component, mix.second_component])
        k = comp.vapour_pressure_constants
        if str(k.type).lower().endswith("antoine") and float(k.b) < 0 and -float(k.c) > 20.0:
            target = float(k.b) / (rng.uniform(296.0, 311.0) - float(k.a)) - float(k.c)
            if 1.0 < target < T0:
                return pv.TemperatureProgram(coefficients=[T0, -(T0 - target) / last_time], type="polynomial")
    if last_time is not None and rng.random() < 0.15:
        # a programme that is inadmissible AT t = 0 ONLY (0 K, negative, -inf or undefined there) and ordinary from the first step on:
        # the series starts at the stated initial temperature, the programme is asked from t = dt on
        dt = max(h - last_time, 1e-12)
        c1 = rng.choice([0.0, 1.0, 0.5, -1.0])
        return pv.TemperatureProgram(coefficients=[T0 / math.log(1e6), c1, (1e6 - c1) / dt], type="logarithmic")
    if u < 0.4:                         # linear, reaching 1..30 K at the end
        return pv.TemperatureProgram(coefficients=[T0, -(T0 - gen.logu(rng, 0.3, 30.0)) / h], type="polynomial")
    if u < 0.7:                         # exponential that overflows to +inf before the end
        return pv.TemperatureProgram(coefficients=[T0, 0.0, rng.uniform(750.0, 3000.0) / h], type="exponential")
    if u < 0.85:                        # logarithm of an argument that turns negative (NaN)
        return pv.TemperatureProgram(coefficients=[T0 / math.log(10.0), 10.0, -rng.uniform(11.0, 40.0) / h], type="logarithmic")
    return pv.TemperatureProgram(coefficients=[T0, -2.0 * T0 / h], type="polynomial")      # below 0 K


def make_program(rng, T0, horizon):
    """A temperature programme that stays within 273..400 K over [0, horizon] hours; its value at t = 0 is the initial feed
    temperature or (30 %) a few kelvin off it (the series still starts at the stated initial temperature)."""
    T0 = float(T0)
    if rng.random() < 0.3:
        T0 = min(395.0, max(278.0, T0 + rng.uniform(-6.0, 6.0)))
    typ = rng.choice(["polynomial", "exponential", "logarithmic"])
    dT = rng.uniform(-25.0, 25.0) if rng.random() < 0.6 else rng.choice([-1, 1]) * gen.logu(rng, 1e-3, 1.0)
    h = max(horizon, 1e-9)
    if typ == "polynomial":
        co = [T0, dT / h] if rng.random() < 0.5 else [T0, 0.5 * dT / h, 0.5 * dT / h ** 2]
    elif typ == "exponential":         # c0 * exp(c1 + c2 x)
        c1 = rng.uniform(-0.2, 0.2)
        co = [T0 / math.exp(c1), c1, math.log((T0 + dT) / T0) / h]
    else:                               # c0 * ln(c1 + c2 x)
        c1 = rng.uniform(2.0, 20.0)
        c0 = T0 / math.log(c1)
        co = [c0, c1, (math.exp((T0 + dT) / c0) - c1) / h]
    if rng.random() < 0.3:
        # a programme object that was constructed for ANOTHER schedule and re-tuned afterwards (coefficients assigned element by element
        # or as a new list, the type re-assigned): it describes what it holds now
        other = [v * rng.uniform(0.9, 1.1) + rng.uniform(-1.0, 1.0) for v in co]
        if rng.random() < 0.5:
            prog = pv.TemperatureProgram(coefficients=other, type=typ)
            for j, v in enumerate(co):
                prog.coefficients[j] = v
        else:
            prog = pv.TemperatureProgram(coefficients=other + [0.0] * rng.randrange(0, 2), type=rng.choice(["polynomial", "exponential", "logarithmic"]))
            prog.coefficients = list(co)
            prog.type = typ
        return prog
    return pv.TemperatureProgram(coefficients=co, type=typ)


_LAST_SYN_T = [None]


def scenario(rng, kind=None, mode=None, removal=None, builtin_p=0.6, prog_p=0.4):
    mix = gen.some_mixture(rng, p_builtin=builtin_p)
    kind = kind or rng.choice(KINDS)
    mode = mode or rng.choice(["vac", "temp", "press"])
    model = rng.choice(["NRTL", "NRTL", "UNIQUAC"])
    # the whole range of the quantifier, its edges included; sometimes from a small grid, so that different runs (other mixtures,
    # other components of the same name) meet at EQUAL temperatures
    T0 = gen.edge_temperature(rng) if rng.random() < 0.75 else rng.choice(gen.GRID_T)
    if mix.name.startswith("SYN"):
        # the previous synthetic mixture of this process - other components, often under the SAME names - was run at this very
        # temperature: anything remembered by name and temperature instead of by the component's constants shows up
        if _LAST_SYN_T[0] is not None and rng.random() < 0.3:
            T0 = _LAST_SYN_T[0]
        _LAST_SYN_T[0] = T0
    sc = {"mix": mix, "kind": kind, "mode": mode, "model": model, "T0": T0,
          "N": rng.choice([1, 2, 3, 5, 8, 12]), # from a laboratory cell (grams of feed on a few cm2) to a plant
          "A": gen.logu(rng, 1e-4, 1e2), "m0": gen.logu(rng, 1e-3, 1e3),
          "x0": rng.uniform(0.05, 0.95), "basis": gen.tstr(rng, rng.choice(["weight", "weight", "molar"])),
          "Tperm": None, "pperm": None, "prog": None, "prec": rng.choice([5e-5, 1e-6, 1e-4]),
          "membrane": make_membrane(rng, mix), "curves": None, "P0": None,
          "removal": removal if removal is not None else (gen.logu(rng, 1e-4, 0.04) if rng.random() < 0.7 else gen.logu(rng, 1e-8, 1e-4))}
    if rng.random() < 0.3:
        # feed temperature exactly at one of the membrane's experiments
        sc["T0"] = T0 = float(rng.choice(sc["membrane"].ideal_experiments.experiments).temperature)
    if mode == "temp":
        sc["Tperm"] = rng.uniform(200.0, T0 - 25.0)
    elif mode == "press":
        sc["pperm"] = 0.0 if rng.random() < 0.15 else rng.uniform(0.0, 3.0)       # 0 kPa exactly is a stated pressure too
        if rng.random() < 0.2:
            sc["pperm"] = gen.logu(rng, 1e-6, 0.1)                                    # a good vacuum pump: pascals, not kilopascals
    if kind.startswith("nonideal"):
        single_off = rng.random() < 0.5        # single curve at a temperature different from T0
        t_curve = None if single_off else T0
        hair = rng.random() < 0.25
        if hair:
            # ONE curve, measured a hair away from the feed temperature (an ulp .. a few tenths of a kelvin): not AT it
            t_curve = float(T0) * (1.0 + rng.choice([-1.0, 1.0]) * (gen.logu(rng, 1e-7, 1e-3) if rng.random() < 0.7 else gen.logu(rng, 3e-16, 1e-7)))
            single_off = False
        exact_single = (not hair) and rng.random() < 0.25       # ONE curve measured exactly at the feed temperature
        if exact_single:
            t_curve, single_off = T0, False
        sc["curves"] = make_curve_set(rng, mix, t_center=t_curve,
                                      n_curves=None if single_off else (1 if (hair or exact_single) else rng.choice([1, 2, 3])),
                                      ctype=gen.tstr(rng, rng.choice(["weight", "weight", "molar"])))
        if rng.random() < 0.5:
            sc["P0"] = (gen.logu(rng, 1e-3, 0.2), gen.logu(rng, 1e-5, 1e-2), gen.tstr(rng, rng.choice([KG, KG, "SI", "GPU"])))
        sc["warmup"] = rng.random() < 0.4
        # explicit orders / zero points for the fits (None = let the search choose), the options the call implies
        sc["fitopts"] = {"n_first": rng.choice([None, None, 0, 1]), "m_first": rng.choice([None, None, 0, 1]),
                         "n_second": rng.choice([None, None, 0, 1]), "m_second": rng.choice([None, None, 0, 1]),
                         "include_zero": rng.random() < 0.3}
    if kind.endswith("noniso") and rng.random() < prog_p:
        sc["want_prog"] = True
    elif kind.endswith("_iso") and rng.random() < 0.6 * prog_p:
        sc["want_prog"] = True          # a Conditions object carrying a programme (e.g. re-used from a non-isothermal run): ignored here
    if rng.random() < 0.15:
        sc["T0"] = int(round(sc["T0"]))          # numbers given as Python ints are admissible inputs too
        if mode == "temp":
            sc["Tperm"] = min(sc["Tperm"], sc["T0"] - 20.0)
    if rng.random() < 0.1:
        sc["m0"] = int(max(1, round(sc["m0"])))
    if rng.random() < 0.1:
        sc["A"] = gen.as_given(rng, max(2.0, sc["A"]), p_int=0.5, p_np=0.5)
    if sc["pperm"] is not None and rng.random() < 0.2:
        sc["pperm"] = gen.as_given(rng, sc["pperm"], p_int=0.0, p_np=1.0)
    return sc


def conditions_of(sc):
    comp = sc.get("shared_comp") or pv.Composition(p=sc["x0"], type=sc["basis"])
    return pv.Conditions(membrane_area=sc["A"], initial_feed_temperature=sc["T0"], initial_feed_amount=sc["m0"],
                         initial_feed_composition=comp,
                         permeate_temperature=sc["Tperm"], permeate_pressure=sc["pperm"],
                         temperature_program=sc["prog"])


def initial_perms(sc):
    """the caller's initial permeances: ONE pair of objects per scenario, handed to every run made from it (also to its twin)"""
    if sc["P0"] is None:
        return None
    if sc.get("_P0objects") is None:
        p1, p2, u = sc["P0"]
        mix = sc["mix"]
        sc["_P0objects"] = (pv.Permeance(value=p1).convert(u, mix.first_component), pv.Permeance(value=p2).convert(u, mix.second_component))
        sc["_P0supplied"] = [(float(q.value), q.units) for q in sc["_P0objects"]]
    return sc["_P0objects"]


def call_model(perv, sc, cond):
    kind = sc["kind"]
    kw = dict(conditions=cond, number_of_steps=sc["N"], delta_hours=sc["dt"], precision=sc["prec"],
              calculation_type=sc["model"])
    if kind == "ideal_iso":
        return perv.ideal_isothermal_process(**kw)
    if kind == "ideal_noniso":
        return perv.ideal_non_isothermal_process(**kw)
    kw.update(diffusion_curve_set=sc["curves"], initial_permeances=initial_perms(sc))
    kw.update(sc.get("fitopts") or {})
    if kind == "nonideal_iso":
        return perv.non_ideal_isothermal_process(**kw)
    return perv.non_ideal_non_isothermal_process(**kw)


def first_step_flux(perv, sc):
    """total flux at the initial state (used only to choose a step length with the wanted removal per step)"""
    mix = sc["mix"]
    c = pv.Composition(p=sc["x0"], type=sc["basis"])
    try:
        if sc["kind"].startswith("ideal"):
            j = perv.calculate_partial_fluxes(sc["T0"], c, sc["prec"], sc["Tperm"], sc["pperm"], calculation_type=sc["model"])
        else:
            cv = sc["curves"].diffusion_curves[0]
            p = cv.permeances[len(cv.permeances) // 2]
            j = perv.calculate_partial_fluxes(sc["T0"], c, sc["prec"], sc["Tperm"], sc["pperm"], p[0], p[1], sc["model"])
        tot = float(j[0] + j[1])
        return tot if (tot > 0 and math.isfinite(tot)) else None
    except Exception:  # noqa: BLE001
        return None


def prepare(rng, sc):
    """fix dt (from the wanted removal per step) and the temperature programme; returns perv or None"""
    perv = pv.Pervaporation(membrane=sc["membrane"], mixture=sc["mix"])
    if "dt" not in sc:
        tot = first_step_flux(perv, sc)
        if tot is None:
            if not sc.get("extreme"):
                return None
            # no usable flux at the start (permeate side at or above the feed side): the run is attempted all the same
            sc["dt"] = gen.logu(rng, 1e-4, 1.0)
        else:
            sc["dt"] = sc["removal"] * sc["m0"] / (tot * sc["A"])
            if sc["dt"] > 200.0:
                # step lengths are kept below 200 h (the area takes up the difference): an implementation that sub-divides long
                # steps must not turn a sampled run into hours of computing
                k = sc["dt"] / rng.uniform(1.0, 200.0)
                sc["dt"], sc["A"] = sc["dt"] / k, float(sc["A"]) * k
            u = rng.random()
            if u < 0.12:
                # a step length given as a whole number of hours (a Python int or a numpy integer): the area takes up the difference
                import numpy
                k = rng.choice([1, 1, 2, 3, 5])
                sc["A"] = float(sc["A"]) * sc["dt"] / k
                sc["dt"] = k if rng.random() < 0.7 else numpy.int64(k)
            elif u < 0.2:
                import numpy
                sc["dt"] = numpy.float64(sc["dt"])
    if sc.get("want_prog") and sc["prog"] is None:
        if sc.get("extreme_prog"):
            sc["prog"] = make_extreme_program(rng, sc["T0"], sc["dt"] * sc["N"], mix=sc["mix"], last_time=sc["dt"] * (sc["N"] - 1),
                                              aim_pole=bool(sc.get("aim_pole")))
        else:
            sc["prog"] = make_program(rng, sc["T0"], sc["dt"] * sc["N"])
    return perv


# ----------------------------------------------------------------------------- execution + trace
def run_process(perv, sc):
    cond = conditions_of(sc)
    if sc.get("preuse") is not None:
        # the very same Conditions object has been used before, by a model of ANOTHER mixture (one step): it is still the question asked
        try:
            sco = dict(sc)
            sco["N"] = 1
            call_model(sc["preuse"], sco, cond)
        except Exception:  # noqa: BLE001
            pass
    if sc.get("edit_reuse"):
        # the very same Conditions object has described ANOTHER run first (other area, amount, composition; the same model, grid and
        # options on the same Pervaporation object) and was then edited in place to the run asked for now
        a, m0 = cond.membrane_area, cond.initial_feed_amount
        comp = cond.initial_feed_composition
        own = pv.Composition(p=min(0.97, max(0.03, float(comp.p) * sc["edit_reuse"][2])), type=comp.type)
        cond.membrane_area, cond.initial_feed_amount, cond.initial_feed_composition = a * sc["edit_reuse"][0], m0 * sc["edit_reuse"][1], own
        try:
            call_model(perv, sc, cond)
        except Exception:  # noqa: BLE001
            pass
        cond.membrane_area, cond.initial_feed_amount = a, m0
        if sc["edit_reuse"][3]:
            own.p = float(comp.p)                  # the fraction re-assigned on the object the first run saw
        else:
            cond.initial_feed_composition = comp
    try:
        model = call_model(perv, sc, cond)
        return {"outcome": "return", "exc": None, "model": model, "cond": cond}
    except Exception as e:  # noqa: BLE001
        return {"outcome": "raise", "exc": type(e).__name__, "model": None, "cond": cond, "msg": str(e)[:200]}


def own_weight(x, basis, mix):
    """mass fraction of the first component from a fraction in the given basis (Composition.tla: ToWeightP)"""
    if str(basis) != "molar":
        return float(x)
    m1, m2 = mix.first_component.molecular_weight, mix.second_component.molecular_weight
    return m1 * x / (m1 * x + m2 * (1.0 - x))


def start_line(sc, res):
    mix = sc["mix"]
    x0w = own_weight(sc["x0"], sc["basis"], mix)      # the specification's formula, not the library's converter
    prog = sc["prog"]
    cs = sc["curves"]
    return {"ev": "Start", "kind": sc["kind"], "iso": sc["kind"].endswith("_iso"), "ideal": sc["kind"].startswith("ideal"),
            "mode": sc["mode"], "model": sc["model"], "N": sc["N"], "dt": F(sc["dt"]), "A": F(sc["A"]),
            "m0": F(sc["m0"]), "x0_in": F(sc["x0"]), "basis": sc["basis"], "x0w": F(x0w), "T0": F(sc["T0"]),
            "hasTperm": sc["Tperm"] is not None, "Tperm": F(sc["Tperm"] or 0.0),
            "haspperm": sc["pperm"] is not None, "pperm": F(sc["pperm"] or 0.0),
            "hasProg": prog is not None and not sc["kind"].endswith("_iso"),
            "prog": None if prog is None else {"type": prog.type, "coeffs": [F(c) for c in prog.coefficients]},
            "P0given": sc["P0"] is not None, "prec": F(sc["prec"]),
            # (the values the scenario was built from, in kg units - not read back from objects the library has held)
            "P0kg": [0.0, 0.0] if sc["P0"] is None else [F(sc["P0"][0]), F(sc["P0"][1])],
            "ncurves": 0 if cs is None else len(cs.diffusion_curves),
            "Tcurve": F(cs.diffusion_curves[0].feed_temperature) if cs is not None else 0.0,
            "M1": F(mix.first_component.molecular_weight), "M2": F(mix.second_component.molecular_weight),
            "mixname": mix.name, "hasRef": False}


def ref_fields(sc):
    """everything the specification needs to re-compute an ideal run by itself: mixture parameters, heat-capacity
    constants and the membrane's experiments (kg units, file order)"""
    from .rec_component import hc_desc
    from .rec_membrane import exp_desc
    mix = sc["mix"]
    ex = sc["membrane"].ideal_experiments.experiments
    return {"hasRef": True, "mix": mix_desc(mix), "hc1": hc_desc(mix.first_component), "hc2": hc_desc(mix.second_component),
            "exps1": [exp_desc(e, mix.first_component) for e in ex if e.component.name == mix.first_component.name],
            "exps2": [exp_desc(e, mix.second_component) for e in ex if e.component.name == mix.second_component.name]}


def _v(x):
    return None if x is None else F(x)


def state_lines(perv, sc, res, with_std=True):
    """one State line per reported step, with oracle values from the public API at the reported state"""
    m = res["model"]
    mix = sc["mix"]
    c1, c2 = mix.first_component, mix.second_component
    M1, M2 = float(c1.molecular_weight), float(c2.molecular_weight)
    # a model whose series have inconsistent lengths is reported up to the shortest one (End.lens tells the rest)
    n = min(len(getattr(m, sname)) for sname in ("time", "feed_mass", "feed_temperature", "feed_compositions", "permeate_composition",
                                                 "partial_fluxes", "permeances", "feed_evaporation_heat", "permeate_condensation_heat"))
    out = []
    prog = sc["prog"] if not sc["kind"].endswith("_iso") else None
    fits = m.permeance_fits

    def safe(f):
        try:
            return float(f())
        except (OverflowError, ZeroDivisionError, ValueError):
            return float("nan")
    for k in range(n):
        def get(series, idx=k):
            try:
                return series[idx]
            except Exception:  # noqa: BLE001
                return None
        T = float(get(m.feed_temperature))
        xk = get(m.feed_compositions)
        yk = get(m.permeate_composition)
        J = get(m.partial_fluxes)
        P = get(m.permeances)
        qc = get(m.permeate_condensation_heat)
        st = {"ev": "State", "k": k, "time": F(get(m.time)), "m": F(get(m.feed_mass)), "x": F(xk.p), "xtype": xk.type,
              "T": F(T), "J1": F(J[0]), "J2": F(J[1]), "y": F(yk.p), "ytype": yk.type,
              "P1": F(P[0].value), "P2": F(P[1].value), "Punits": P[0].units,
              "Qevap": F(get(m.feed_evaporation_heat)), "hasQcond": qc is not None, "Qcond": F(qc if qc is not None else 0.0),
              "h1": F(safe(lambda: c1.get_vaporisation_heat(T) / M1 * 1000)), "h2": F(safe(lambda: c2.get_vaporisation_heat(T) / M2 * 1000)),
              "cp1": F(safe(lambda: c1.get_specific_heat(T) / M1)), "cp2": F(safe(lambda: c2.get_specific_heat(T) / M2))}
        if prog is not None:
            st["progT"] = F(safe(lambda: prog.program(float(get(m.time)))))
        else:
            st["progT"] = 0.0
        if with_std:
            try:
                if sc["kind"].startswith("ideal"):
                    # ideal models: the standalone calculation takes the permeances from the membrane itself
                    js = perv.calculate_partial_fluxes(T, pv.Composition(p=float(xk.p), type="weight"), sc["prec"], sc["Tperm"],
                                                       sc["pperm"], calculation_type=sc["model"])
                else:
                    js = perv.calculate_partial_fluxes(T, pv.Composition(p=float(xk.p), type="weight"), sc["prec"], sc["Tperm"],
                                                       sc["pperm"], P[0], P[1], sc["model"])
                st["Jstd"] = [F(js[0]), F(js[1])]
                st["hasJstd"] = True
            except Exception:  # noqa: BLE001
                st["Jstd"], st["hasJstd"] = [0.0, 0.0], False
        else:
            st["Jstd"], st["hasJstd"] = [0.0, 0.0], False
        if fits is not None:
            xp = float(get(m.feed_compositions, k - 1).p) if k > 0 else float(xk.p)
            st["F"] = [F(fits[0](float(xk.p), T)), F(fits[1](float(xk.p), T))]
            st["Fprev"] = [F(fits[0](xp, T)), F(fits[1](xp, T))]
        else:
            st["F"], st["Fprev"] = [0.0, 0.0], [0.0, 0.0]
        out.append(st)
    return out


SERIES = ["feed_temperature", "feed_compositions", "permeate_composition", "permeate_temperature", "permeate_pressure",
          "feed_mass", "partial_fluxes", "permeances", "time", "feed_evaporation_heat", "permeate_condensation_heat"]


def end_line(sc, res):
    if res["outcome"] != "return":
        return {"ev": "End", "outcome": "raise", "exc": res["exc"], "lens": []}
    m = res["model"]
    return {"ev": "End", "outcome": "return", "exc": None, "lens": [len(getattr(m, s)) for s in SERIES]}


def fit_desc(f):
    return {"alpha": F(f.alpha), "a": [F(v) for v in f.a], "b": [F(v) for v in f.b]}


def fit_oracle(sc, membrane, include_zero=False, model_kind="process"):
    """what the PUBLIC best-fit search produces from each component's permeances in the curve set, with the options
    the non-ideal models imply (m = 0 for a single curve), and the membrane's public activation energies"""
    from pyvaporation.optimizer import Measurements, find_best_fit
    cs = sc["curves"]
    single = len(cs.diffusion_curves) == 1
    m1 = Measurements.from_diffusion_curves_first(cs)
    m2 = Measurements.from_diffusion_curves_second(cs)
    fo = sc.get("fitopts") or {}
    # single curve: m = 0; the process models then never add zero points, the curve model passes include_zero through
    iz = fo.get("include_zero", include_zero)
    if single and model_kind == "process":
        iz = False
    f1 = find_best_fit(data=m1, n=fo.get("n_first"), m=0 if single else fo.get("m_first"), include_zero=iz, component_index=0)
    f2 = find_best_fit(data=m2, n=fo.get("n_second"), m=0 if single else fo.get("m_second"), include_zero=iz, component_index=1)
    ea = []
    for comp in (sc["mix"].first_component, sc["mix"].second_component):
        try:
            ea.append(F(membrane.calculate_activation_energy(comp)))
        except Exception:  # noqa: BLE001
            ea.append(0.0)
    return {"single": single, "orc": [fit_desc(f1), fit_desc(f2)], "Ea": ea}


def trace_process(rng, sc, with_std=True, with_fits=False, with_ref=False):
    perv = prepare(rng, sc)
    if perv is None:
        return None, None
    if sc.get("warmup") and sc["curves"] is not None:
        # the same object and curve set are used by another model first (what the second call returns must not depend on it)
        sw = dict(sc)
        sw["kind"] = "nonideal_noniso" if sc["kind"] == "nonideal_iso" else "nonideal_iso"
        sw["N"] = 2
        run_process(perv, sw)
    res = run_process(perv, sc)
    tr = [start_line(sc, res)]
    if with_fits and sc["curves"] is not None and res["outcome"] == "return":
        fo = fit_oracle(sc, sc["membrane"])
        tr[0].update({"hasFits": True, "single": fo["single"], "fits_orc": fo["orc"], "Ea": fo["Ea"],
                      "fits_ret": [fit_desc(f) for f in res["model"].permeance_fits]})
    else:
        tr[0].update({"hasFits": False})
    if with_ref and res["outcome"] == "return":
        tr[0].update(ref_fields(sc))
    if res["outcome"] == "return":
        tr.extend(state_lines(perv, sc, res, with_std))
    tr.append(end_line(sc, res))
    return tr, res


def slow_convergence(rng, sc):
    """a weakly selective membrane against a strong back pressure (a permeate side a good part of the way to the feed side), at a
    fine precision: the permeate-composition iteration needs tens to hundreds of passes at every step"""
    mix = sc["mix"]
    base, sel = gen.logu(rng, 1e-3, 0.1), rng.uniform(1.3, 8.0)
    first_fast = rng.random() < 0.6
    for e in sc["membrane"].ideal_experiments.experiments:
        is_first = e.component.name == mix.first_component.name
        e.permeance = pv.Permeance(base if is_first == first_fast else base / sel)
    sc["prec"] = rng.choice([1e-6, 1e-7, 5e-5])
    try:
        pf = pv.get_partial_pressures(float(sc["T0"]), mix, pv.Composition(p=sc["x0"], type=sc["basis"]), sc["model"])
        tot = float(pf[0] + pf[1])
    except Exception:  # noqa: BLE001
        return
    if sc["mode"] == "press" and tot > 0 and math.isfinite(tot):
        sc["pperm"] = tot * rng.uniform(0.3, 0.95)
    elif sc["mode"] == "temp":
        sc["Tperm"] = float(sc["T0"]) - rng.uniform(1.0, 12.0)
    sc["removal"] = gen.logu(rng, 1e-4, 1e-2)


def record_job(job):
    """job = (seed, n, opts) -> (traces, stats); opts: kinds, removal range, with_std"""
    import random
    seed, n, opts = job
    rng = random.Random(seed)
    traces = []
    stats = {"nontrivial": set(), "outcomes": {}, "kinds": {}}
    kinds = opts.get("kinds", KINDS)
    pool = []            # Composition OBJECTS shared between runs of this job (also across different mixtures)
    for j in range(n):
        kind = kinds[j % len(kinds)]
        rem = None
        if opts.get("coarse"):
            rem = gen.logu(rng, 0.1, 10.0)
        if opts.get("overcool"):
            rem = rng.uniform(0.4, 0.97)           # one step removes a large part of the feed: self-cooling below 0 K
        sc = scenario(rng, kind=kind, removal=rem, prog_p=0.0 if opts.get("overcool") else 0.4,
                      mode=rng.choice(["vac", "press"]) if opts.get("pole") else None)
        if (opts.get("coarse") or opts.get("overcool")) and rng.random() < opts.get("unselective_p", 0.3):
            # a hardly selective membrane (the permeate has nearly the feed's composition, so fractions stay inside [0,1] while a coarse
            # step over-consumes the feed), sometimes with a very coarse solver precision on top
            base = gen.logu(rng, 1e-3, 0.1)
            for e in sc["membrane"].ideal_experiments.experiments:
                e.permeance = pv.Permeance(base * rng.uniform(0.8, 1.25))
            if rng.random() < 0.5:
                sc["prec"] = rng.choice([1e-2, 0.1, 0.5, 1.0])
                if "dt" not in sc:
                    sc["removal"] = rng.uniform(0.4, 0.99)      # the feed is used up in the second or third step, not by much
                    sc["N"] = rng.choice([3, 4, 5])             # ... so that an over-consumed state would be a REPORTED one
            elif rng.random() < 0.3:
                sc["N"] = rng.choice([3, 5, 8])
        if opts.get("overcool"):
            sc["N"] = 2                            # the over-cooled state is the last one reported
        if opts.get("extreme"):
            # programmes leaving the physical range; permeate sides at or above the feed side
            sc["removal"] = gen.logu(rng, 1e-6, 1e-2)
            sc["extreme"] = True
            if sc["kind"].endswith("noniso") and rng.random() < 0.7:
                sc["want_prog"], sc["extreme_prog"] = True, True
            if sc["kind"].startswith("ideal") and rng.random() < 0.15:
                for e in sc["membrane"].ideal_experiments.experiments:      # an impermeable membrane: both fluxes exactly 0
                    e.permeance = pv.Permeance(0.0)
            elif sc["kind"].startswith("ideal") and (opts.get("pole") or rng.random() < 0.5):
                for e in sc["membrane"].ideal_experiments.experiments:      # permeances that do not collapse at low temperature
                    e.activation_energy = rng.choice([0.0, -rng.uniform(0.0, 6000.0)])
                if opts.get("pole"):
                    sc["N"] = rng.choice([2, 2, 3])
                if sc["kind"] == "ideal_noniso" and sc["N"] >= 2 and (opts.get("pole") or rng.random() < 0.7):
                    # ... and a programme whose last reported state sits where a vapour pressure runs through the top of the float range
                    sc["want_prog"], sc["extreme_prog"], sc["aim_pole"] = True, True, True
            if sc["mode"] == "temp":
                sc["Tperm"] = float(sc["T0"]) + rng.uniform(-10.0, 30.0)
            elif sc["mode"] == "press":
                sc["pperm"] = gen.logu(rng, 0.5, 60.0)
        if sc["mode"] != "vac" and rng.random() < opts.get("slow_p", 0.0):
            slow_convergence(rng, sc)
        if opts.get("maxN"):
            sc["N"] = min(sc["N"], opts["maxN"])
        if pool and rng.random() < 0.25:
            sc["shared_comp"] = rng.choice(pool)          # the very same object another run (another mixture) already used
            sc["x0"], sc["basis"] = float(sc["shared_comp"].p), sc["shared_comp"].type
        else:
            sc["shared_comp"] = pv.Composition(p=sc["x0"], type=sc["basis"])
            pool.append(sc["shared_comp"])
            pool[:] = pool[-6:]
        if rng.random() < 0.12 and sc["kind"].startswith("ideal"):
            sc["edit_reuse"] = (rng.choice([2.0, 0.5, 1.0]), rng.choice([1.5, 1.0, 0.25]), rng.uniform(0.5, 1.5), rng.random() < 0.5)
        tr, res = trace_process(rng, sc, with_std=opts.get("with_std", True), with_fits=opts.get("with_fits", False),
                               with_ref=opts.get("with_ref", False))
        if tr is None:
            stats["outcomes"]["unprepared"] = stats["outcomes"].get("unprepared", 0) + 1
            continue
        traces.append(tr)
        stats["outcomes"][res["outcome"]] = stats["outcomes"].get(res["outcome"], 0) + 1
        key = "%s/%s/%s%s" % (sc["kind"], sc["mode"], sc["model"], "/prog" if sc["prog"] is not None else "")
        stats["kinds"][key] = stats["kinds"].get(key, 0) + 1
        if res["outcome"] == "return" and sc["N"] >= 2:
            stats["nontrivial"].add((sc["mix"].name, sc["kind"], sc["mode"], sc["model"], sc["T0"], sc["x0"]))
    return traces, stats


def shape_job(job):
    """leg C of C01: one returned run of the real code per run shape enumerated by TLC (MC_ProcessQ): job = (seed, shapes)"""
    import random
    seed, shapes = job
    rng = random.Random(seed)
    out = []
    for q in shapes:
        kind = ("ideal" if q["ideal"] else "nonideal") + ("_iso" if q["iso"] else "_noniso")
        for attempt in range(10):
            sc = scenario(rng, kind=kind, mode="temp" if q["hasTperm"] else rng.choice(["vac", "press"]), prog_p=0.0)
            sc["N"] = q["N"] if q["N"] < 4 else rng.choice([3, 4, 6])
            sc.pop("want_prog", None)
            if q["hasProg"]:
                sc["want_prog"] = True
            sc["shared_comp"] = pv.Composition(p=sc["x0"], type=sc["basis"])
            tr, res = trace_process(rng, sc, with_std=False, with_ref=q["ideal"])
            if tr is not None and res["outcome"] == "return":
                out.append(tr)
                break
    return out


def step0_twin(rng, ideal=True):
    """the isothermal and the non-isothermal model started from the same conditions: compare step 0"""
    sc = scenario(rng, kind="ideal_iso" if ideal else "nonideal_iso")
    sc["N"] = rng.choice([1, 2])
    perv = prepare(rng, sc)
    if perv is None:
        return None
    sc2 = dict(sc)
    sc2["kind"] = "ideal_noniso" if ideal else "nonideal_noniso"
    if rng.random() < 0.4:
        sc2["prog"] = make_program(rng, sc["T0"], sc["dt"] * sc["N"])     # step 0 does not depend on the programme
    ra, rb = run_process(perv, sc), run_process(perv, sc2)
    if ra["outcome"] != "return" or rb["outcome"] != "return":
        return None
    a = state_lines(perv, sc, ra, with_std=False)[0]
    b = state_lines(perv, sc2, rb, with_std=False)[0]
    keep = ("J1", "J2", "Qevap", "hasQcond", "Qcond", "T", "x", "m", "P1", "P2")
    return [{"ev": "Step0Twin", "ideal": ideal, "mode": sc["mode"], "model": sc["model"], "mixname": sc["mix"].name,
             "a": {k: a[k] for k in keep}, "b": {k: b[k] for k in keep}}]


def twin0_job(job):
    import random
    seed, n, ideal = job
    rng = random.Random(seed)
    out = []
    for _ in range(n):
        t = step0_twin(rng, ideal)
        if t is not None:
            out.append(t)
    return out


def ni_standalone(perv, d, j, kw):
    """the public standalone flux calculation at point j of a returned non-ideal curve (its own composition and permeances)"""
    try:
        r = perv.calculate_partial_fluxes(feed_temperature=kw["feed_temperature"], composition=d.feed_compositions[j],
                                          precision=kw["precision"], permeate_temperature=kw["permeate_temperature"],
                                          permeate_pressure=kw["permeate_pressure"], first_component_permeance=d.permeances[j][0],
                                          second_component_permeance=d.permeances[j][1], calculation_type=kw["calculation_type"])
        return [F(r[0]), F(r[1])]
    except Exception:  # noqa: BLE001
        return None


def nicurve_trace(rng, shape=None):
    """non_ideal_diffusion_curve on a synthetic curve set, with the public best-fit search as oracle; shape (from MC_NICurveQ):
    {N, hasInit, up, outcome} forces the number of steps (3 stands for "three or more"), initial permeances, the direction of the
    grid and whether it stays inside [0,1]"""
    mix = gen.some_mixture(rng, p_builtin=0.6)
    membrane = make_membrane(rng, mix)
    T = rng.uniform(300.0, 350.0)
    single_off = rng.random() < 0.5
    cs = make_curve_set(rng, mix, t_center=None if single_off else T, n_curves=None if single_off else rng.choice([1, 2, 3]))
    perv = pv.Pervaporation(membrane=membrane, mixture=mix)
    sc = {"mix": mix, "curves": cs}
    basis = gen.tstr(rng, rng.choice(["weight", "weight", "molar"]))
    x0 = rng.uniform(0.1, 0.6)
    c0 = pv.Composition(p=x0, type=basis)
    model = gen.tstr(rng, rng.choice(["NRTL", "UNIQUAC"]))
    mode = rng.choice(["vac", "temp", "press"])
    n = rng.choice([0, 1, 2, 3, 4, 5, 6])
    if shape is not None:
        n = shape["N"] if shape["N"] < 3 else rng.randrange(3, 7)
    P0 = None
    dx = rng.uniform(0.005, 0.04)
    x0w = own_weight(x0, basis, mix)
    r = rng.random()
    if r < 0.15:        # the grid ends next to 1: the look-ahead point of the last iteration is just inside or just outside
        dx = (1.0 - x0w + rng.choice([-1, 1]) * rng.choice([0.0, 1e-12, 1e-3])) / max(1, n + 1 + rng.choice([0, 0, -1]))
    elif r < 0.3:       # a descending grid, a third of them ending next to 0
        dx = -dx if rng.random() < 0.66 else -(x0w + rng.choice([-1, 1]) * rng.choice([0.0, 1e-12, 1e-3])) / max(1, n + 1 + rng.choice([0, 0, -1]))
    if shape is not None:
        # the grid x0w + j dx, j = 0 .. n + 1 (look-ahead point included), stays inside [0,1] or leaves it, upwards or downwards
        room = (1.0 - x0w) if shape["up"] else x0w
        mag = room / (n + 1) * (rng.uniform(0.2, 0.9) if shape["outcome"] == "return" else rng.uniform(1.05, 2.0))
        dx = mag if shape["up"] else -mag
    prec = rng.choice([5e-5, 5e-5, 1e-7])
    kw = dict(diffusion_curve_set=cs, feed_temperature=T, initial_feed_composition=c0, delta_composition=dx,
              number_of_steps=n, precision=prec, permeate_temperature=rng.uniform(200.0, T - 25.0) if mode == "temp" else None,
              permeate_pressure=rng.uniform(0.0, 3.0) if mode == "press" else None, calculation_type=model)
    sc["fitopts"] = {"n_first": rng.choice([None, None, 0, 1]), "m_first": rng.choice([None, None, 0, 1]),
                     "n_second": rng.choice([None, None, 0, 1]), "m_second": rng.choice([None, None, 0, 1]),
                     "include_zero": rng.random() < 0.3}
    kw.update(sc["fitopts"])
    if (rng.random() < 0.5) if shape is None else shape["hasInit"]:
        u = gen.tstr(rng, rng.choice([KG, "SI", "GPU"]))
        P0 = (pv.Permeance(gen.logu(rng, 1e-3, 0.2)).convert(u, mix.first_component),
              pv.Permeance(gen.logu(rng, 1e-5, 1e-2)).convert(u, mix.second_component))
        kw["initial_permeances"] = P0
    try:
        d = perv.non_ideal_diffusion_curve(**kw)
    except Exception as e:  # noqa: BLE001
        return [{"ev": "NIStart", "outcome": "raise", "exc": type(e).__name__, "hasFits": False, "x0w": F(x0w), "dx": F(dx), "N": n,
                 "P0given": P0 is not None}]
    fo = fit_oracle(sc, membrane, model_kind="curve")
    tr = [{"ev": "NIStart", "outcome": "return", "hasFits": True, "dx": F(dx), "prec": F(prec), "fitopts": str(sc["fitopts"]), "single": fo["single"], "fits_orc": fo["orc"], "Ea": fo["Ea"],
           "T": F(T), "Tcurve": F(cs.diffusion_curves[0].feed_temperature), "x0w": F(x0w), "basis": basis,
           "N": n, "P0given": P0 is not None, "model": model, "mode": mode, "mixname": mix.name,
           "P0kg": [0.0, 0.0] if P0 is None else [F(P0[0].convert(KG, mix.first_component).value), F(P0[1].convert(KG, mix.second_component).value)]}]
    for j in range(len(d.feed_compositions)):
        tr.append({"ev": "NIPoint", "j": j, "x": F(d.feed_compositions[j].p), "xtype": d.feed_compositions[j].type,
                   "P": [F(d.permeances[j][0].value), F(d.permeances[j][1].value)], "Punits": d.permeances[j][0].units,
                   "J": [F(d.partial_fluxes[j][0]), F(d.partial_fluxes[j][1])], "Jstd": ni_standalone(perv, d, j, kw)})
    tr.append({"ev": "NIEnd", "nx": len(d.feed_compositions), "nP": len(d.permeances), "nJ": len(d.partial_fluxes)})
    return tr


def nicurve_shape_job(job):
    """one recorded curve per run shape of MC_NICurveQ (a few attempts each: the fits may fail for reasons of their own)"""
    import random
    seed, shapes = job
    rng = random.Random(seed)
    out = []
    for sh in shapes:
        for _ in range(4):
            tr = nicurve_trace(rng, shape=sh)
            out.append(tr)
            if tr[0]["outcome"] == sh["outcome"]:
                break
    return out


def nicurve_job(job):
    import random
    seed, n = job
    rng = random.Random(seed)
    return [nicurve_trace(rng) for _ in range(n)]
