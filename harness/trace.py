"""ndjson trace writer. Floats stay floats (repr round-trips bit-exactly into Java's
Double.parseDouble); non-finite floats become "#nan"/"#inf"/"#-inf"; None -> null."""
import json
import math

try:
    import numpy
    _NP_FLOAT = (numpy.floating,)
    _NP_INT = (numpy.integer,)
    _NP_BOOL = (numpy.bool_,)
except Exception:  # pragma: no cover
    _NP_FLOAT = _NP_INT = _NP_BOOL = ()


def enc(x):
    if x is None or isinstance(x, (str, bool)):
        return x
    if isinstance(x, _NP_BOOL):
        return bool(x)
    if isinstance(x, int) or isinstance(x, _NP_INT):
        x = int(x)
        if not -2**31 <= x < 2**31:
            raise ValueError("int out of TLC range: %r" % x)
        return x
    if isinstance(x, float) or isinstance(x, _NP_FLOAT):
        x = float(x)
        if math.isnan(x):
            return "#nan"
        if math.isinf(x):
            return "#inf" if x > 0 else "#-inf"
        return x
    if isinstance(x, dict):
        return {str(k): enc(v) for k, v in x.items()}
    if isinstance(x, (list, tuple)):
        return [enc(v) for v in x]
    if hasattr(x, "tolist"):
        return enc(x.tolist())
    raise TypeError("cannot encode %r" % type(x))


def F(x):
    """force a number to be logged as a float (ints like 12 -> 12.0)"""
    if x is None:
        return None
    return float(x)


class TraceWriter:
    """Collects traces (lists of event dicts); writes them as ndjson with t (trace id) and i (index)."""

    def __init__(self):
        self.traces = []

    def new(self, meta=None):
        tr = []
        self.traces.append(tr)
        return tr

    def add(self, events):
        self.traces.append(list(events))

    def n_lines(self):
        return sum(len(t) for t in self.traces)

    def write_shards(self, path_prefix, shards):
        """Round-robin whole traces into `shards` files; returns [(path, n_lines, n_traces)]."""
        shards = max(1, min(shards, len(self.traces) or 1))
        files = [open("%s_%02d.ndjson" % (path_prefix, k), "w") for k in range(shards)]
        counts = [[0, 0] for _ in range(shards)]
        # balance by lines
        order = sorted(range(len(self.traces)), key=lambda j: -len(self.traces[j]))
        for j in order:
            k = min(range(shards), key=lambda s: counts[s][0])
            tr = self.traces[j]
            for i, ev in enumerate(tr):
                rec = {"t": j, "i": i}
                rec.update(ev)
                files[k].write(json.dumps(enc(rec), separators=(",", ":")) + "\n")
            counts[k][0] += len(tr)
            counts[k][1] += 1
        out = []
        for k, f in enumerate(files):
            f.close()
            if counts[k][0]:
                out.append((f.name, counts[k][0], counts[k][1]))
        return out
