"""C14 recorder: conversion chains on real Permeance objects (value v and its multiple k*v)."""
from . import gen
from .gen import pv
from .trace import F

UNITS = ["kg/(m2*h*kPa)", "SI", "GPU"]


def unknown_unit(rng):
    """a unit name the library does not know: another convention, a mis-spelling, a FRAGMENT of a known name, other case, padding"""
    u = rng.random()
    if u < 0.35:
        return rng.choice(["kg/(m2 h kPa)", "Barrer", "gpu", "si", "furlong/fortnight"])
    k = rng.choice(UNITS)
    if u < 0.7:
        i = rng.randrange(0, len(k))
        j = rng.randrange(i, len(k) + 1)
        frag = k[i:j]
        return frag if frag not in UNITS else frag + "s"            # "", "kg", "kPa", "m2", "PU", "S", "G" ...
    if u < 0.8:
        return k + rng.choice([" ", "s", "/"]) if rng.random() < 0.5 else " " + k
    if u < 0.9:
        alt = k.swapcase()
        return alt if alt not in UNITS else k.lower() + "_"
    return rng.choice(UNITS) + rng.choice(UNITS)                     # two names run together


def pstate(p):
    return {"value": F(p.value), "units": p.units}


def record(tw, rng, n_chains, stats):
    comps = gen.builtin_components()
    for j in range(n_chains):
        if rng.random() < 0.5:
            comp = rng.choice(comps)
        else:
            comp = gen.synthetic_component(rng, "S", mass=gen.logu(rng, 1.0, 1000.0))
        if rng.random() < 0.2:
            # a component DERIVED from another one with a corrected molar mass (attr.evolve, or a copy edited afterwards): conversions
            # use the molar mass the component has now
            import attr
            import copy
            newm = float(comp.molecular_weight) * rng.uniform(0.3, 3.0)
            if rng.random() < 0.5:
                comp = attr.evolve(comp, molecular_weight=newm)
            else:
                comp = copy.deepcopy(comp)
                comp.molecular_weight = newm
        M = float(comp.molecular_weight)
        u = rng.random()
        if u < 0.08:
            v = 0.0
        elif u < 0.14:
            v = -gen.logu(rng, 1e-12, 1e6)           # clamped to 0 on construction
        else:
            v = gen.logu(rng, 1e-12, 1e6)
        k = rng.choice([2.0, 0.5, 3.7, 1e-3, 1e3, gen.logu(rng, 1e-3, 1e3)])
        if v >= 1.0 and rng.random() < 0.15:
            # a whole number as it comes out of an integer column or a counter: Python int or numpy integer scalar
            import numpy
            v = float(round(min(v, 2e9 / 4)))
            k = rng.choice([2, 3])
            vi = rng.choice([int, numpy.int64, numpy.int32])(v)
            as_int = True
        else:
            as_int = False
        u0 = gen.tstr(rng, rng.choice(UNITS))
        if rng.random() < 0.08:
            # the Permeance itself is stated in a unit the library does not know (mis-spelt, another convention): converting it must raise
            u0 = unknown_unit(rng)
        a = pv.Permeance(value=vi if as_int else v, units=u0)
        b = pv.Permeance(value=(type(vi)(k) * vi) if as_int else k * v, units=u0)
        tr = tw.new()
        tr.append({"ev": "New", "M": M, "k": F(k), "v_in": F(v), "a": pstate(a), "b": pstate(b)})
        for _ in range(rng.randrange(2, 5)):
            to = gen.tstr(rng, rng.choice(UNITS + UNITS + [unknown_unit(rng)]))       # also as a string made at run time
            has = rng.random() < 0.8
            try:
                a2 = a.convert(to, comp if has else None)
                b2 = b.convert(to, comp if has else None)
                outcome, exc = "ok", None
                if not (isinstance(a2, pv.Permeance)):
                    outcome = "notpermeance"
                else:
                    a, b = a2, b2
            except Exception as e:  # noqa: BLE001
                outcome, exc = "raise", type(e).__name__
            tr.append({"ev": "Conv", "to": to, "hasM": has, "outcome": outcome, "exc": exc,
                       "a": pstate(a), "b": pstate(b)})
        stats["chains"] = stats.get("chains", 0) + 1
        if v > 0:
            stats["nontrivial"].add((v, k, M, u0))
    # a Permeance that was itself RETURNED by a conversion with one component is converted again with another component:
    # each conversion uses the component it is given
    for _ in range(max(8, n_chains // 20)):
        ca, cb = rng.sample(comps, 2) if rng.random() < 0.6 else (gen.synthetic_component(rng, "SA", mass=gen.logu(rng, 1.0, 1000.0)),
                                                                  gen.synthetic_component(rng, "SB", mass=gen.logu(rng, 1.0, 1000.0)))
        v = gen.logu(rng, 1e-12, 1e6)
        u_from = gen.tstr(rng, rng.choice(["SI", "GPU"]))
        u_to = gen.tstr(rng, rng.choice(["SI", "GPU"]))
        try:
            mid = pv.Permeance(value=v, units=u_from).convert(UNITS[0], ca)
            if rng.random() < 0.3:
                mid.value = mid.value * 1.0          # (an assignment to the public attribute of the returned object)
            end = mid.convert(u_to, cb)
            tw.add([{"ev": "Cross", "v": F(v), "from": u_from, "to": u_to, "MA": float(ca.molecular_weight), "MB": float(cb.molecular_weight),
                     "mid": pstate(mid), "end": pstate(end), "raised": False}])
        except Exception as e:  # noqa: BLE001
            tw.add([{"ev": "Cross", "v": F(v), "from": u_from, "to": u_to, "MA": float(ca.molecular_weight), "MB": float(cb.molecular_weight),
                     "mid": {"value": 0.0, "units": ""}, "end": {"value": 0.0, "units": ""}, "raised": True}])
    # ONE Permeance object converted to the same target twice, with two different components: each answer uses its own component
    for _ in range(max(8, n_chains // 20)):
        ca, cb = rng.sample(comps, 2) if rng.random() < 0.6 else (gen.synthetic_component(rng, "SA", mass=gen.logu(rng, 1.0, 1000.0)),
                                                                  gen.synthetic_component(rng, "SB", mass=gen.logu(rng, 1.0, 1000.0)))
        v = gen.logu(rng, 1e-12, 1e6)
        u_from, u_to = rng.choice([("SI", UNITS[0]), ("GPU", UNITS[0]), (UNITS[0], "SI"), (UNITS[0], "GPU")])
        u_from, u_to = gen.tstr(rng, u_from), gen.tstr(rng, u_to)
        obj = pv.Permeance(value=v, units=u_from)
        try:
            first = obj.convert(u_to, ca)
            second = obj.convert(u_to, cb)
            again = obj.convert(u_to, ca)
            tw.add([{"ev": "Twice", "v": F(v), "from": u_from, "to": u_to, "MA": float(ca.molecular_weight), "MB": float(cb.molecular_weight),
                     "first": pstate(first), "second": pstate(second), "again": pstate(again), "obj": pstate(obj), "raised": False}])
        except Exception as e:  # noqa: BLE001
            z = {"value": 0.0, "units": ""}
            tw.add([{"ev": "Twice", "v": F(v), "from": u_from, "to": u_to, "MA": float(ca.molecular_weight), "MB": float(cb.molecular_weight),
                     "first": z, "second": z, "again": z, "obj": z, "raised": True}])
    # the defining factors through the value 1
    for comp in comps + [gen.synthetic_component(rng, "S", mass=gen.logu(rng, 1.0, 1000.0)) for _ in range(8)]:
        one_kg = pv.Permeance(value=1.0, units=UNITS[0]).convert("SI", comp)
        one_gpu = pv.Permeance(value=1.0, units="GPU").convert("SI", comp)
        one_gpu_nc = pv.Permeance(value=1.0, units="GPU").convert("SI")
        tw.add([{"ev": "Factors", "M": float(comp.molecular_weight), "kg_si": F(one_kg.value),
                 "gpu_si": F(one_gpu.value), "gpu_si_nocomp": F(one_gpu_nc.value)}])
