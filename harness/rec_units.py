"""C14 recorder: conversion chains on real Permeance objects (value v and its multiple k*v)."""
from . import gen
from .gen import pv
from .trace import F

UNITS = ["kg/(m2*h*kPa)", "SI", "GPU"]


def pstate(p):
    return {"value": F(p.value), "units": p.units}


def record(tw, rng, n_chains, stats):
    comps = gen.builtin_components()
    for j in range(n_chains):
        if rng.random() < 0.5:
            comp = rng.choice(comps)
        else:
            comp = gen.synthetic_component(rng, "S", mass=gen.logu(rng, 1.0, 1000.0))
        M = float(comp.molecular_weight)
        u = rng.random()
        if u < 0.08:
            v = 0.0
        elif u < 0.14:
            v = -gen.logu(rng, 1e-12, 1e6)           # clamped to 0 on construction
        else:
            v = gen.logu(rng, 1e-12, 1e6)
        k = rng.choice([2.0, 0.5, 3.7, 1e-3, 1e3, gen.logu(rng, 1e-3, 1e3)])
        u0 = rng.choice(UNITS)
        if rng.random() < 0.08:
            # the Permeance itself is stated in a unit the library does not know (mis-spelt, another convention): converting it must raise
            u0 = rng.choice(["kg/(m2 h kPa)", "Barrer", "gpu", "si", "furlong/fortnight"])
        a = pv.Permeance(value=v, units=u0)
        b = pv.Permeance(value=k * v, units=u0)
        tr = tw.new()
        tr.append({"ev": "New", "M": M, "k": F(k), "v_in": F(v), "a": pstate(a), "b": pstate(b)})
        for _ in range(rng.randrange(2, 5)):
            to = rng.choice(UNITS + UNITS + ["furlong/fortnight"])
            has = rng.random() < 0.8
            try:
                a2 = a.convert(to, comp if has else None)
                b2 = b.convert(to, comp if has else None)
                outcome, exc = "ok", None
                if not (isinstance(a2, pv.Permeance)):
                    outcome = "notpermeance"
                else:
                    a, b = a2, b2
            except Exception as e:  # noqa: BLE001
                outcome, exc = "raise", type(e).__name__
            tr.append({"ev": "Conv", "to": to, "hasM": has, "outcome": outcome, "exc": exc,
                       "a": pstate(a), "b": pstate(b)})
        stats["chains"] = stats.get("chains", 0) + 1
        if v > 0:
            stats["nontrivial"].add((v, k, M, u0))
    # the defining factors through the value 1
    for comp in comps + [gen.synthetic_component(rng, "S", mass=gen.logu(rng, 1.0, 1000.0)) for _ in range(8)]:
        one_kg = pv.Permeance(value=1.0, units=UNITS[0]).convert("SI", comp)
        one_gpu = pv.Permeance(value=1.0, units="GPU").convert("SI", comp)
        one_gpu_nc = pv.Permeance(value=1.0, units="GPU").convert("SI")
        tw.add([{"ev": "Factors", "M": float(comp.molecular_weight), "kg_si": F(one_kg.value),
                 "gpu_si": F(one_gpu.value), "gpu_si_nocomp": F(one_gpu_nc.value)}])
