"""C04 recorder: call tables of calculate_activity_coefficients / get_partial_pressures."""
import json

from . import gen
from .gen import pv
from .rec_component import vp_desc
from .trace import F, enc
from pyvaporation.mixtures.mixture import calculate_activity_coefficients
from pyvaporation.utils import NRTLParameters


def uq_const(c):
    u = c.uniquac_constants
    if u is None:
        return None
    return {"r": F(u.r), "q": F(u.q_geometric), "qi": F(u.q_interaction)}


def mix_desc(m, raoult=False):
    n, u = m.nrtl_params, m.uniquac_params
    d = {"name": m.name, "M1": F(m.first_component.molecular_weight), "M2": F(m.second_component.molecular_weight),
         "vp1": vp_desc(m.first_component), "vp2": vp_desc(m.second_component),
         "c1": uq_const(m.first_component), "c2": uq_const(m.second_component), "raoult": raoult,
         "nrtl": None, "uq": None}
    if n is not None:
        d["nrtl"] = {"g12": F(n.g12), "g21": F(n.g21), "al12": F(n.alpha12),
                     "al21": F(n.alpha12 if n.alpha21 is None else n.alpha21), "a12": F(n.a12), "a21": F(n.a21)}
    if u is not None:
        d["uq"] = {"alpha_12": F(u.alpha_12), "alpha_21": F(u.alpha_21), "beta_12": F(u.beta_12),
                   "beta_21": F(u.beta_21), "z": F(u.z)}
    return d


def raoult_mixture(rng):
    m = gen.synthetic_mixture(rng, "RAOULT")
    m.nrtl_params = NRTLParameters(g12=0, g21=0, alpha12=rng.uniform(0.1, 0.6), alpha21=rng.choice([None, 0.3]))
    return m


def export_mixtures(path, rng, n_synth=10):
    mixes = [(m, False) for m in gen.builtin_mixtures()]
    mixes += [(gen.synthetic_mixture(rng, "SYN%d" % i), False) for i in range(n_synth)]
    mixes += [(raoult_mixture(rng), True)]
    with open(path, "w") as f:
        for m, r in mixes:
            f.write(json.dumps(enc(mix_desc(m, r))) + "\n")
    return len(mixes)


def gam_raw(T, m, x, model):
    """the object the library returns, untouched"""
    return calculate_activity_coefficients(temperature=T, mixture=m, composition=pv.Composition(p=x, type="molar"), calculation_type=model)


def pure_table(T, m, model, eps):
    """gammas towards both pure ends, tabulated first and read afterwards"""
    hi = [gam_raw(T, m, 1.0 - e, model) for e in eps]
    lo = [gam_raw(T, m, e, model) for e in eps]
    one, zero = gam_raw(T, m, 1.0, model), gam_raw(T, m, 0.0, model)
    return {"g_hi": [F(g[0]) for g in hi], "g_lo": [F(g[1]) for g in lo], "g_one": F(one[0]), "g_zero": F(zero[1])}


def gam(T, m, x, model):
    g = calculate_activity_coefficients(temperature=T, mixture=m, composition=pv.Composition(p=x, type="molar"),
                                        calculation_type=model)
    return [F(g[0]), F(g[1])]


def record(tw, rng, n, stats, probe_cap=60):
    # probes: known-finding probes emitted so far; carry: a mass-fraction composition OBJECT that the previous mixture has already
    # been asked with
    state = {"probes": 0, "probe_cap": probe_cap, "carry": None}
    for j in range(n):
        u = rng.random()
        raoult = u < 0.06
        m = raoult_mixture(rng) if raoult else gen.some_mixture(rng, p_builtin=0.55)
        tr = tw.new()
        tr.append(dict(ev="Mix", **mix_desc(m, raoult)))
        for model in ("NRTL", "UNIQUAC"):
            mark = len(tr)
            try:
                _one_model(tw, rng, m, tr, model, raoult, stats, state)
            except Exception as e:  # noqa: BLE001
                # an exception of the library on an input of the quantifier: no relation can be stated on these records; they are
                # dropped and counted (too many of them fail the check as machinery), the others decide
                del tr[mark:]
                stats["skipped"] = stats.get("skipped", 0) + 1
                stats.setdefault("skipped_excs", {})[type(e).__name__] = stats.setdefault("skipped_excs", {}).get(type(e).__name__, 0) + 1
        if not raoult and m not in gen.builtin_mixtures() and m.nrtl_params is not None and rng.random() < 0.3:
            # the SAME mixture object after its parameters were changed (re-assigned, or edited in place): the answers follow what the
            # object holds now
            q = m.nrtl_params
            zeroed = rng.random() < 0.35
            if zeroed:
                # the interaction parameters are switched off on the object (a what-if study): Raoult's law from now on
                if rng.random() < 0.5:
                    q.g12 = q.g21 = 0
                    q.a12 = q.a21 = 0
                else:
                    m.nrtl_params = NRTLParameters(g12=0, g21=0, alpha12=q.alpha12, alpha21=q.alpha21)
            elif rng.random() < 0.5:
                m.nrtl_params = NRTLParameters(g12=q.g12 * rng.uniform(0.3, 2.0), g21=q.g21 * rng.uniform(0.3, 2.0), alpha12=rng.uniform(0.1, 0.6),
                                               alpha21=q.alpha21, a12=q.a12, a21=q.a21)
            else:
                q.g12, q.g21 = q.g12 * rng.uniform(0.3, 2.0), rng.choice([0.0, q.g21 * rng.uniform(0.3, 2.0)])
                q.a12 = rng.choice([0.0, q.a12 + rng.uniform(-1.0, 1.0)])
            if m.uniquac_params is not None and rng.random() < 0.5:
                m.uniquac_params.beta_12 = m.uniquac_params.beta_12 * rng.uniform(0.5, 1.5)
            tr2 = tw.new()
            tr2.append(dict(ev="Mix", **mix_desc(m, zeroed)))
            for model in ("NRTL", "UNIQUAC"):
                mark = len(tr2)
                try:
                    _one_model(tw, rng, m, tr2, model, zeroed, stats, state)
                except Exception as e:  # noqa: BLE001
                    del tr2[mark:]
                    stats["skipped"] = stats.get("skipped", 0) + 1
                    stats.setdefault("skipped_excs", {})[type(e).__name__] = stats.setdefault("skipped_excs", {}).get(type(e).__name__, 0) + 1


def _one_model(tw, rng, m, tr, model, raoult, stats, state):
    probes, probe_cap, carry = state["probes"], state["probe_cap"], state["carry"]
    T = gen.some_temperature(rng)
    x = gen.fraction(rng, ends=False) if rng.random() < 0.8 else rng.choice([gen.logu(rng, 1e-4, 1e-2), 1 - gen.logu(rng, 1e-4, 1e-2)])
    if rng.random() < 0.35 and m.nrtl_params is not None:
        # a SIBLING mixture - the same energies and first non-randomness factor, other optional parameters - has been evaluated
        # at this very temperature just before: the answers for this mixture follow its own parameters
        from pyvaporation.utils import NRTLParameters
        q = m.nrtl_params
        sib = pv.Mixture(name=m.name, first_component=m.first_component, second_component=m.second_component,
                         nrtl_params=NRTLParameters(g12=q.g12, g21=q.g21, alpha12=q.alpha12,
                                                    alpha21=rng.choice([None, rng.uniform(0.1, 0.6)]),
                                                    a12=rng.uniform(-2.0, 3.0), a21=rng.uniform(-2.0, 3.0)),
                         uniquac_params=m.uniquac_params)
        try:
            gam(T, sib, x, "NRTL")
            pv.get_partial_pressures(T, sib, pv.Composition(p=x, type="molar"), "NRTL")
        except Exception:  # noqa: BLE001
            pass
    h = min(2e-4, x / 50, (1 - x) / 50)
    pts = [x - 2 * h, x - h, x, x + h, x + 2 * h]
    # the caller tabulates: all five results are obtained first and read afterwards (each call returns its own answer)
    raw = [gam_raw(T, m, p, model) for p in pts]
    gs = [[F(g[0]), F(g[1])] for g in raw]
    probe = False
    if model == "UNIQUAC" and probes < probe_cap:
        probe, probes = True, probes + 1
    tr.append({"ev": "GD", "model": model, "T": F(T), "x": F(x), "h": F(h), "pts": [F(p) for p in pts],
               "g1": [g[0] for g in gs], "g2": [g[1] for g in gs], "probe": probe})
    eps = [1e-4, 1e-6, 1e-8]
    tr.append({"ev": "Pure", "model": model, "T": F(T), "eps": eps,
               **pure_table(T, m, model, eps)})
    # partial pressures from a mass-fraction and from the equivalent mole-fraction input
    w = gen.fraction(rng)
    cw = pv.Composition(p=w, type="weight")
    if carry is not None and rng.random() < 0.5:
        cw, w = carry, carry.p      # the caller sweeps one feed specification over several mixtures / models
    carry = cw
    M1, M2 = float(m.first_component.molecular_weight), float(m.second_component.molecular_weight)
    cx = pv.Composition(p=(w / M1) / (w / M1 + (1 - w) / M2), type="molar")      # Composition.tla's ToMolarP, independent of the code
    pw = pv.get_partial_pressures(T, m, cw, model)
    px = pv.get_partial_pressures(T, m, cx, model)
    g = calculate_activity_coefficients(T, m, cx, model)
    gw = calculate_activity_coefficients(T, m, cw, model)         # the same state supplied as a mass fraction
    tr.append({"ev": "PP", "model": model, "T": F(T), "w": F(w), "x": F(cx.first), "x2": F(cx.second),
               "g": [F(g[0]), F(g[1])], "g_w": [F(gw[0]), F(gw[1])],
               "psat": [F(m.first_component.get_vapor_pressure(T)), F(m.second_component.get_vapor_pressure(T))],
               "p_w": [F(pw[0]), F(pw[1])], "p_x": [F(px[0]), F(px[1])]})
    stats["nontrivial"].add((m.name, model, T, x))

    state["probes"], state["carry"] = probes, carry
