"""C09 recorder: diffusion curves built from solver fluxes (inversion) and from permeances (units, fluxes, re-inversion)."""
import random

from . import gen, rec_process as rp
from .gen import pv
from .trace import F

KG = "kg/(m2*h*kPa)"
PREC = 1e-10


def pp_at(mix, mode, Tperm, pperm, y):
    c = pv.Composition(p=y, type="weight")
    if mode == "vac":
        return [0.0, 0.0], [0.0, 0.0]
    if mode == "temp":
        p = pv.get_partial_pressures(Tperm, mix, c)
        return [F(p[0]), F(p[1])], [F(p[0]), F(p[1])]
    cm = c.to_molar(mix)
    return [F(pperm * c.first), F(pperm * c.second)], [F(pperm * cm.first), F(pperm * cm.second)]


def from_fluxes(rng):
    mix = gen.some_mixture(rng, p_builtin=0.6)
    perv = pv.Pervaporation(membrane=pv.Membrane(name="verif"), mixture=mix)
    T = gen.edge_temperature(rng)
    mode = rng.choice(["vac", "temp", "press"])
    Tperm = rng.uniform(200.0, T - 20.0) if mode == "temp" else None
    if mode == "temp" and rng.random() < 0.3:
        Tperm = T - gen.logu(rng, 3.0, 20.0)         # a warm condenser: the permeate side is a large share of the driving force
    pperm = rng.uniform(0.05, 8.0) if mode == "press" else None
    # the permeate condition as a caller may pass it: a float, a Python int, a numpy scalar
    if Tperm is not None:
        Tperm = gen.as_given(rng, Tperm, p_int=0.2)
    if pperm is not None:
        pperm = gen.as_given(rng, pperm, p_int=0.2)
    basis = gen.tstr(rng, rng.choice(["weight", "weight", "molar"]))
    P = (gen.logu(rng, 1e-6, 1.0), gen.logu(rng, 1e-6, 1.0))
    comps, fluxes, Ls = [], [], []
    cand = [pv.Composition(p=rng.uniform(0.02, 0.98), type=basis) for _ in range(rng.randrange(2, 6))]
    if rng.random() < 0.3:       # the basis belongs to each point: the same number once as mass and once as mole fraction
        cand.append(pv.Composition(p=cand[0].p, type="molar" if cand[0].type == "weight" else "weight"))
    for c in cand:
        try:
            j = perv.calculate_partial_fluxes(T, c, PREC, Tperm, pperm, pv.Permeance(P[0]), pv.Permeance(P[1]), "NRTL")
        except Exception:  # noqa: BLE001
            continue
        if not (j[0] > 0 and j[1] > 0):
            continue
        comps.append(c)
        fluxes.append((float(j[0]), float(j[1])))
    if not comps:
        return None
    try:
        d = pv.DiffusionCurve(mixture=mix, membrane_name="verif", feed_temperature=T, feed_compositions=comps,
                              partial_fluxes=fluxes, permeate_temperature=Tperm, permeate_pressure=pperm)
    except Exception as e:  # noqa: BLE001
        return [{"ev": "CurveFromFluxes", "raised": True, "exc": type(e).__name__, "mode": mode, "mixname": mix.name, "probe": False}]
    tr = [{"ev": "CurveFromFluxes", "raised": False, "mode": mode, "T": F(T), "Tperm": F(Tperm or 0.0), "pperm": F(pperm or 0.0),
           "Pin": [F(P[0]), F(P[1])], "prec": PREC, "basis": basis, "mixname": mix.name, "probe": False,
           "M1": F(mix.first_component.molecular_weight), "M2": F(mix.second_component.molecular_weight)}]
    touch_getters(rng, d)
    ys = d.permeate_composition
    for k, c in enumerate(comps):
        y = float(ys[k].p)
        pf = pv.get_partial_pressures(T, mix, c)
        ppm, ppx = pp_at(mix, mode, Tperm, pperm, y)
        h = 1e-6
        lo, hi = max(0.0, y - h), min(1.0, y + h)
        a, _ = pp_at(mix, mode, Tperm, pperm, lo)
        b, _ = pp_at(mix, mode, Tperm, pperm, hi)
        dpp = [F((b[0] - a[0]) / (hi - lo)), F((b[1] - a[1]) / (hi - lo))]
        # local contraction factor of the solver map at y (two extra public evaluations)
        try:
            gl = perv.get_partial_fluxes_from_permeate_composition(pv.Permeance(P[0]), pv.Permeance(P[1]), pv.Composition(lo, "weight"), c, T, Tperm, pperm, "NRTL")
            gh = perv.get_partial_fluxes_from_permeate_composition(pv.Permeance(P[0]), pv.Permeance(P[1]), pv.Composition(hi, "weight"), c, T, Tperm, pperm, "NRTL")
            L = abs(gh[0] / (gh[0] + gh[1]) - gl[0] / (gl[0] + gl[1])) / (hi - lo)
        except Exception:  # noqa: BLE001
            L = 1.0
        tr.append({"ev": "Point", "x": F(c.p), "xtype": c.type, "J": [F(fluxes[k][0]), F(fluxes[k][1])],
                   "Pout": [F(d.permeances[k][0].value), F(d.permeances[k][1].value)], "Punits": d.permeances[k][0].units,
                   "y": F(y), "pf": [F(pf[0]), F(pf[1])], "pp_mass": ppm, "pp_molar": ppx, "dpp": dpp, "L": F(L)})
    return tr


def touch_getters(rng, d):
    """the derived quantities of a curve are read (in any order, any number of them) BEFORE its permeances are: reading is not writing"""
    names = ["get_selectivity", "get_separation_factor", "get_psi", "permeate_composition", "get_permeances"]
    rng.shuffle(names)
    for nm in names[:rng.randrange(0, len(names) + 1)]:
        try:
            getattr(d, nm)
        except Exception:  # noqa: BLE001
            pass


def to_si_factor(units, comp):
    """Units.tla: factor(SI) = 1, factor(GPU) = 3.35e-10, factor(kg/(m2 h kPa)) = 1 / (3600 M)"""
    if units == "SI":
        return 1.0
    if units == "GPU":
        return 3.35e-10
    return 1.0 / (float(comp.molecular_weight) * 3.6e3)


def from_permeances(rng):
    mix = gen.some_mixture(rng, p_builtin=0.6)
    T = gen.edge_temperature(rng)
    units = gen.tstr(rng, rng.choice([KG, "SI", "GPU"]))
    basis = gen.tstr(rng, rng.choice(["weight", "molar"]))
    comps, perms, pkg, supplied = [], [], [], []
    same_object = rng.random() < 0.25
    mixed = not same_object and rng.random() < 0.4      # every Permeance object states its own unit: the caller may mix them
    for _ in range(rng.randrange(2, 6)):
        comps.append(pv.Composition(p=rng.uniform(0.02, 0.98), type=basis))
        v = (gen.logu(rng, 1e-6, 1.0), gen.logu(rng, 1e-6, 1.0))
        u1 = u2 = units
        if mixed:
            u1, u2 = gen.tstr(rng, rng.choice([KG, "SI", "GPU"])), gen.tstr(rng, rng.choice([KG, "SI", "GPU"]))
        # what is SUPPLIED is a raw number in the chosen unit, computed with the specification's factors (Units.tla), not with
        # the library's converter; the Permeance objects are built from those raw numbers
        raw = (v[0] * to_si_factor(KG, mix.first_component) / to_si_factor(u1, mix.first_component),
               v[1] * to_si_factor(KG, mix.second_component) / to_si_factor(u2, mix.second_component))
        p1 = pv.Permeance(value=raw[0], units=u1)
        p2 = pv.Permeance(value=raw[1], units=u2)
        if same_object:
            # ONE Permeance object in both slots of the point: the same number in the caller's unit for both components
            p2 = p1
            raw = (raw[0], raw[0])
            v = (v[0], raw[0] * to_si_factor(units, mix.second_component) / to_si_factor(KG, mix.second_component))
        perms.append((p1, p2))
        supplied.append([F(raw[0]), F(raw[1])])
        pkg.append([F(v[0]), F(v[1])])
    junk = rng.choice([None, None, 0.5])         # a permeate condition must not matter here
    d = pv.DiffusionCurve(mixture=mix, membrane_name="verif", feed_temperature=T, feed_compositions=comps, permeances=perms,
                          permeate_pressure=junk)
    class Failed:                     # a construction that raised: reported as such (NaN values), never a crash of the recorder
        def __init__(self, n):
            self.permeances = [(pv.Permeance(float("nan")), pv.Permeance(float("nan"))) for _ in range(n)]
    try:
        d2 = pv.DiffusionCurve(mixture=mix, membrane_name="verif", feed_temperature=T, feed_compositions=comps,
                               partial_fluxes=[tuple(f) for f in d.partial_fluxes])
        d2_raised = False
    except Exception:  # noqa: BLE001
        d2, d2_raised = Failed(len(comps)), True
    # a third construction: fluxes AND permeances supplied together (permeances still in the caller's unit)
    try:
        d3 = pv.DiffusionCurve(mixture=mix, membrane_name="verif", feed_temperature=T, feed_compositions=comps,
                               partial_fluxes=[tuple(f) for f in d.partial_fluxes], permeances=list(perms))
        d3_raised = False
    except Exception:  # noqa: BLE001
        d3, d3_raised = Failed(len(comps)), True
    for q in (d, d2, d3):
        if not isinstance(q, Failed):
            touch_getters(rng, q)
    tr = [{"ev": "CurveFromPermeances", "units": units, "T": F(T), "basis": basis, "mixname": mix.name, "probe": False}]
    for k, c in enumerate(comps):
        pf = pv.get_partial_pressures(T, mix, c)
        tr.append({"ev": "PPoint", "x": F(c.p), "Psupplied": supplied[k], "Pkg": pkg[k],
                   "Pexposed": [F(d.permeances[k][0].value), F(d.permeances[k][1].value)],
                   "Punits": [d.permeances[k][0].units, d.permeances[k][1].units],
                   "J": [F(d.partial_fluxes[k][0]), F(d.partial_fluxes[k][1])], "pf": [F(pf[0]), F(pf[1])],
                   "Pre": [F(d2.permeances[k][0].value), F(d2.permeances[k][1].value)],
                   "Pboth": [F(d3.permeances[k][0].value), F(d3.permeances[k][1].value)],
                   "Pboth_units": [d3.permeances[k][0].units, d3.permeances[k][1].units],
                   "reRaised": d2_raised, "bothRaised": d3_raised})
    return tr


def curve_job(job):
    seed, n = job
    rng = random.Random(seed)
    out = []
    for k in range(n):
        t = from_fluxes(rng) if k % 3 else from_permeances(rng)
        if t is not None:
            out.append(t)
    return out
