"""C19 — contradictory or incomplete specifications are rejected at every entry point."""
import json
import os

from .. import core, tlc
from ..trace import TraceWriter

ASSUMPTIONS = [
    'TLAPS (tla/proofs/RejectProofs.tla, checked by tlapm on every run): RejectsInvalid of Reject.tla holds after any sequence of edits and calls',
    "leg A: the specification-editing machine of tla/Reject.tla, all 2^9 specifications x 19 entry points x 2 models; a design that silently prefers one permeate condition is a negative configuration",
    "leg C: TLC writes the table of (entry point, invalid class, model) rows; each row is executed with otherwise valid random arguments, next to a valid control call",
    "any exception type counts as rejection; process models are called with at least one step (with zero steps no driving force is computed)",
]
CLAUSES = {
    "Cl_RejectsInvalid": "the entry point raises for the invalid specification", "Cl_RowIsInvalid": "the row is invalid by the specification's own validity predicate",
    "Ref_ControlAccepted": "DRIFT: the valid control specification is accepted",
}
MANIFEST = {
    "text": "TLC model-checks tla/Reject.tla (an entry point accepts a specification only if it is valid; 512 specifications x 19 entry points "
            "x 2 models) and writes the table of invalid rows; every row is executed on the real code with random valid remaining arguments "
            "and validated by TLC against the specification's validity predicate. tlapm proves RejectsInvalid for any sequence of edits and calls.",
    "note": "Remaining arguments sampled. Trusted: TLC, Java overrides, recorder.",
    "technique": "TLA+ spec + TLC (exhaustive table, exported) + TLC validation of recorded rejections + TLAPS proof (tlapm)",
}


# proof modules about the specification, checked by tlapm on every run (started by the driver next to leg A)
TLAPS = [('RejectProofs.tla', ['Reject.tla'])]


def leg_a(ctx):
    return [{"spec": "MC_Reject.tla", "cfg": "MC_Reject_neg.cfg", "expect": "violates:RejectsInvalid", "workers": 4,
             "what": "a design that silently prefers the permeate temperature when both conditions are given"}]


def run(ctx, pool):
    rows_file = os.path.join(ctx.work, "rows.ndjson")
    r = tlc.run("MC_Reject.tla", "MC_Reject.cfg", workers=8, env={"ROWS_FILE": rows_file}, workdir=ctx.work, coverage=True)
    if not r.ok:
        raise core.MachineryFailure("MC_Reject failed: %s %s" % (r.violated_names(), r.errors[:2]))
    rows = [json.loads(x) for x in open(rows_file) if x.strip()]
    heavy = [x for x in rows if x["entry"].startswith("nonideal")]
    light = [x for x in rows if not x["entry"].startswith("nonideal")]
    jobs = [(ctx.seed * 65537 + j, light[j::8], ctx.n(5, 50)) for j in range(8)]
    jobs += [(ctx.seed * 65539 + 100 + j, [x], ctx.n(2, 20)) for j, x in enumerate(heavy)]
    tw = TraceWriter()
    for traces in core.parallel("harness.rec_reject", "reject_job", jobs):
        tw.traces.extend(traces)
    res = core.validate_traces(None, ctx, tw, pool, "Trace_Reject.tla", "Trace_Reject.cfg")
    covered = {(t[0]["entry"], t[0]["class"], t[0]["model"]) for t in tw.traces if t[0]["invalid"]}
    missing = [x for x in rows if (x["entry"], x["class"], x["model"]) not in covered]
    res["failures"] = ["table rows without an execution: %s" % missing[:5]] if missing else []
    res["states"] += r.distinct
    res["transitions"] += max(0, r.generated - r.init_states)
    hist = core.event_histogram(tw)
    res["coverage"] = {
        "evaluations": len(tw.traces), "distinct_nontrivial": len(covered),
        "rule": "each of the %d TLC-enumerated rows (entry point x invalid-specification class x activity model) executed with 5 (quick) / 50 "
                "(thorough) otherwise valid random argument sets (2 / 20 for the non-ideal models), each next to a valid control call; "
                "distinct = covered rows" % len(rows),
        "table_rows": len(rows), "rows_covered": len(covered), "spec_states": r.distinct, "events": hist, "clauses": CLAUSES,
        "samples": [tw.traces[0], tw.traces[len(tw.traces) // 2]],
    }
    res["required_events"] = {"Try": hist.get("Try", 0)}
    res["trace_lookup"] = lambda v: [v["record"]]
    return res


def classify(v, kf):
    if v["invariant"].startswith("Ref_"):
        return ("drift", None)
    return ("violation", None)
