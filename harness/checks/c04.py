"""C04 — activity-coefficient models are thermodynamically consistent."""
import os

from .. import core, rec_activity
from ..trace import TraceWriter

ASSUMPTIONS = [
    "leg A: IEEE sweep x=0.05..0.95 x 5 temperatures over the code's built-in mixtures + synthetic parameter sets, both models",
    "Gibbs-Duhem by five-point differences (h <= 1e-3), residual compared at 1e-5 with the size of its two terms (floor 0.01)",
    "pure limit as convergence: |gamma-1| at 1e-8 from purity <= max(1e-10, 0.01 |gamma-1| at 1e-4)",
    "relations are asserted only on finite, positive activity coefficients",
    "known finding D3 (UNIQUAC gamma_2 as implemented) is a named deviation operator of the specification",
]
CLAUSES = {
    "Cl_GibbsDuhem": "x1 dln(g1)/dx1 + x2 dln(g2)/dx1 = 0 (or the output is exactly the known deviation D3)",
    "KF_D3_GibbsDuhem": "probe: strict Gibbs-Duhem on UNIQUAC (fires while known finding D3 is present)",
    "Cl_PureLimit": "gamma_i -> 1 as component i becomes pure",
    "Cl_Raoult": "NRTL with vanishing parameters gives gamma = 1",
    "Cl_PartialPressure": "p_i = x_i gamma_i Psat_i from the three public functions",
    "Cl_BasisIndependent": "mass-fraction input = equivalent mole-fraction input",
    "Ref_Gamma": "DRIFT: gammas equal the specification's formulas",
}
MANIFEST = {
    "text": "TLC model-checks tla/Activity.tla (NRTL, UNIQUAC) in IEEE arithmetic on a composition/temperature sweep over the code's own "
            "mixture parameters (Gibbs-Duhem, pure limits, Raoult; the named deviation UNIQUAC_AsImplemented must violate Gibbs-Duhem) and "
            "validates stencils recorded from the real calculate_activity_coefficients / get_partial_pressures clause by clause.",
    "note": "Continuous inputs sampled (seeded). Known finding D3 is accepted only where the code's output equals the deviation operator to 1e-9 "
            "at all stencil points; any other Gibbs-Duhem failure is a violation. Trusted: TLC, Java overrides (StrictMath), recorder.",
    "technique": "TLA+ spec + TLC (IEEE doubles) + TLC validation of recorded call tables; named-deviation matching for the known finding",
}


def leg_a(ctx):
    mix_file = os.path.join(ctx.work, "mixes.ndjson")
    n = rec_activity.export_mixtures(mix_file, ctx.sub_rng(1), n_synth=ctx.n(10, 60))
    env = {"MIX_FILE": mix_file}
    return [
        {"spec": "MC_ActivityF64.tla", "cfg": "MC_ActivityF64.cfg", "env": env, "coverage": True, "workers": 8,
         "what": "%d mixtures x {NRTL, UNIQUAC} x 5 temperatures x 19 compositions" % n},
        {"spec": "MC_ActivityF64.tla", "cfg": "MC_ActivityF64_neg_asimpl.cfg", "env": env, "expect": "violates:Inv_GibbsDuhem",
         "what": "named deviation D3 (gamma_2 as implemented) must violate Gibbs-Duhem"},
    ]


def run(ctx, pool):
    tw = TraceWriter()
    stats = {"nontrivial": set()}
    rec_activity.record(tw, ctx.rng, ctx.n(700, 40000), stats)
    res = core.validate_traces(None, ctx, tw, pool, "Trace_Activity.tla", "Trace_Activity.cfg")
    hist = core.event_histogram(tw)
    res["coverage"] = {
        "evaluations": res["lines"], "distinct_nontrivial": len(stats["nontrivial"]),
        "rule": "per drawn mixture (55% built-in, rest synthetic incl. one/two alphas, with/without a_ij, 6% zero-parameter NRTL) and per "
                "model: a five-point stencil of gammas at random T in 273..400 K and x in (0,1), a pure-limit record, a partial-pressure "
                "record from mass- and mole-fraction inputs; distinct by (mixture, model, T, x)",
        "events": hist, "clauses": CLAUSES,
        "samples": [tw.traces[0][:3], tw.traces[-1][:3]],
    }
    res["coverage"]["records_dropped_on_library_exception"] = {"count": stats.get("skipped", 0), "by_exception": stats.get("skipped_excs", {})}
    if stats.get("skipped", 0) > 0.2 * 2 * ctx.n(700, 40000):
        res.setdefault("failures", []).append("the library raised on %d of the sampled (mixture, model) records: %s" % (
            stats["skipped"], stats.get("skipped_excs")))
    res["required_events"] = {k: hist.get(k, 0) for k in ("Mix", "GD", "Pure", "PP")}
    res["trace_lookup"] = lambda v: [tw.traces[v["record"]["t"]][0], v["record"]]
    return res


def classify(v, kf):
    inv = v["invariant"]
    if inv.startswith("Ref_"):
        return ("drift", None)
    if inv == "KF_D3_GibbsDuhem":
        for f in kf.get("findings", []):
            if f.get("property") == "C04" and f.get("clause") == "GibbsDuhem" and f.get("deviation") == "Activity!UQGamma2_AsImplemented":
                return ("known", "UNIQUAC gamma_2 as implemented (mixture.py residual bracket) violates Gibbs-Duhem [D3]")
        return ("violation", None)
    return ("violation", None)
