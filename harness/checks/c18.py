"""C18 — reported process states are physically admissible, otherwise the call raises."""
from .. import core
from . import _process_common as pc

ASSUMPTIONS = [
    'TLAPS (tla/proofs/ProcessProofs.tla, theorem AdmissibleStatesHolds, checked by tlapm on every run): in the guarded Process.tla every reported state was examined by the guard of the step that used it, so a returned model holds admissible masses, temperatures and fractions only - for EVERY N, every arithmetic and every environment (TLC enumerates N in {1, 2, 4} with rationals)',
    "leg A: exact rationals with fluxes large enough to exhaust the feed within 1-3 steps; with the guard every returned behaviour reports only admissible states; the unguarded machine (negative configuration) does not",
    "leg B: coarse discretisations (one step removes 10%..1000% of the feed) of all kinds and permeate modes, plus ordinary ones; a run that raises is fine",
]
CLAUSES = {"Cl_Admissible": "every reported state: feed mass > 0, fractions in [0,1], finite positive temperature, finite fluxes and heats"}
MANIFEST = {
    "text": "TLC model-checks the guarded Process machine with exact rationals and feed-exhausting fluxes (every returned run reports only "
            "admissible states; the unguarded machine is a negative configuration that must violate it) and validates every reported "
            "state of recorded coarse and ordinary runs of the real models. tlapm proves for every N, arithmetic and environment that a returned guarded run of the same specification reports admissible states only.",
    "note": "Scenarios sampled (seeded). Trusted: TLC, Java overrides, recorder.",
    "technique": "TLA+ state machine + TLC (exact rationals) + TLC trace validation of recorded coarse process runs + TLAPS proofs about the same specification module (tlapm)",
}


# proof modules about the specification, checked by tlapm on every run (started by the driver next to leg A)
TLAPS = [("ProcessProofs.tla", ["Process.tla"])]


def leg_a(ctx):
    return pc.LEG_A_PROCESS + [{"spec": "MC_ProcessQ.tla", "cfg": "MC_ProcessQ_neg_no_guard.cfg", "expect": "violates:Inv_Admissible",
                                "workers": 2, "what": "the machine without the admissibility guard reports a negative feed mass"}]


def run(ctx, pool):
    tw, stats = pc.record_processes(ctx, ctx.n(1500, 60000), ctx.n(32, 1200), {"with_std": False}, coarse=True)
    # non-isothermal models, two steps, a first step that removes 25-97 % of the feed: the temperature guard is the only one left
    tw3, st3 = pc.record_processes(ctx, ctx.n(300, 10000), ctx.n(96, 1500), {"with_std": False, "overcool": True, "unselective_p": 0.0},
                                   kinds=["ideal_noniso", "nonideal_noniso"])
    tw.traces.extend(tw3.traces)
    stats["nontrivial"] |= st3["nontrivial"]
    for k, v in st3["outcomes"].items():
        stats["outcomes"]["overcool_" + k] = v
    # temperature programmes that leave the physical range (few kelvin, +inf, NaN, below 0 K) and permeate sides at or above the feed side
    tw4, st4 = pc.record_processes(ctx, ctx.n(400, 12000), ctx.n(16, 600), {"with_std": False, "extreme": True})
    tw.traces.extend(tw4.traces)
    stats["nontrivial"] |= st4["nontrivial"]
    for k, v in st4["outcomes"].items():
        stats["outcomes"]["extreme_" + k] = v
    # short programmed runs whose last reported state sits a few kelvin below the pole of an Antoine equation, where a vapour pressure,
    # the flux and the heat of evaporation run through the top of the floating-point range one after the other
    tw5, st5 = pc.record_processes(ctx, ctx.n(4000, 120000), 0, {"with_std": False, "extreme": True, "pole": True}, kinds=["ideal_noniso"])
    tw.traces.extend(tw5.traces)
    for k, v in st5["outcomes"].items():
        stats["outcomes"]["pole_" + k] = v
    # hardly selective membranes under coarse steps (fractions stay inside [0,1] while the feed is over-consumed), half of them with a
    # solver precision of 1e-2 .. 1 and a feed that is used up in the second or third of three to five steps
    tw6, st6 = pc.record_processes(ctx, ctx.n(500, 10000), ctx.n(8, 200), {"with_std": False, "unselective_p": 1.0}, coarse=True)
    tw.traces.extend(tw6.traces)
    for k, v in st6["outcomes"].items():
        stats["outcomes"]["unselective_" + k] = v
    tw2, st2 = pc.record_processes(ctx, ctx.n(200, 5000), 0, {"with_std": False}, coarse=False)
    tw.traces.extend(tw2.traces)
    stats["nontrivial"] |= st2["nontrivial"]
    for k, v in st2["outcomes"].items():
        stats["outcomes"][k] = stats["outcomes"].get(k, 0) + v
    res = core.validate_traces(None, ctx, tw, pool, "Trace_Process.tla", "Trace_Process_C18.cfg")
    res = pc.finish(res, tw, stats, CLAUSES, "coarse discretisations: " + pc.RULE.replace("1e-4..4e-2", "0.1..10 (coarse) and 1e-4..4e-2"))
    return res
