"""C11 — process models scale correctly with size and with the area/time trade-off."""
from .. import core
from . import _twin_common as tc

ASSUMPTIONS = [
    "leg A: product of two Process machines in lock-step, exact rationals, free fluxes equal in both runs (they depend on intensive state only), K = 3/2",
    "leg B: twin runs of the real models, factors 2^-10..2^10 and 1e-3..1e3; tolerance 1e-9 (rounding differs for factors that are no power of two)",
]
CLAUSES = {
    "Cl_ScaleOutcome": "scaling area and amount - or trading area against step length without a programme - by an exact factor (a power of two) is the same computation: the twin returns exactly when the original does",
    "Cl_PairRel": "scale: intensive series equal, masses and heats times k; trade (no programme): every per-step state equal; "
                  "other area/amount/step: fluxes at step 0 equal",
    "Cl_MetricsRel": "separation factor, selectivity and PSI series equal", "Ref_TwinOutcome": "DRIFT: both runs return or both raise",
}
MANIFEST = {
    "text": "TLC model-checks the product of two Process machines run in lock-step on scaled inputs with exact rationals (size scaling and "
            "area/time trade-off as invariants of the product, equal guards; a non-homogeneous wrong design must be caught) and validates twin "
            "executions of the four real process models step by step.",
    "note": "Scenarios and factors sampled. Trusted: TLC, Java overrides, recorder.",
    "technique": "TLA+ product (twin) state machine + TLC (exact rationals) + TLC validation of recorded twin runs",
}
KINDS = ["ideal_iso", "ideal_noniso", "nonideal_iso", "nonideal_noniso"]


def leg_a(ctx):
    return [
        {"spec": "MC_TwinQ.tla", "cfg": "MC_TwinQ_scale.cfg", "workers": 4, "coverage": True, "what": "size scaling, product machine"},
        {"spec": "MC_TwinQ.tla", "cfg": "MC_TwinQ_trade.cfg", "workers": 4, "coverage": True, "what": "area/time trade-off, product machine"},
        {"spec": "MC_TwinQ.tla", "cfg": "MC_TwinQ_scale_neg_area_once.cfg", "expect": "violates:Inv_Related,Inv_SameGuards", "workers": 2},
        {"spec": "MC_TwinQ.tla", "cfg": "MC_TwinQ_trade_neg_area_once.cfg", "expect": "violates:Inv_Related,Inv_SameGuards", "workers": 2},
    ]


def run(ctx, pool):
    ideal = KINDS[:2]
    nonideal = KINDS[2:]
    plan = [("scale", "process", ideal, ctx.n(200, 8000), ctx.n(10, 100)), ("trade", "process", ideal, ctx.n(200, 8000), ctx.n(10, 100)),
            ("dtonly", "process", ideal, ctx.n(80, 3000), ctx.n(10, 100)),
            ("scale", "process", nonideal, ctx.n(16, 600), ctx.n(1, 10)), ("trade", "process", nonideal, ctx.n(16, 600), ctx.n(1, 10)),
            # absolute magnitudes: a gram to a tonne of feed, times or divided by 2^7 / 2^10
            ("scaledec", "process", ideal, ctx.n(120, 4000), ctx.n(10, 100)), ("scaledec", "process", nonideal, ctx.n(32, 600), ctx.n(2, 10))]
    tw = tc.record(ctx, plan)
    res = core.validate_traces(None, ctx, tw, pool, "Trace_Twin.tla", "Trace_Twin.cfg")
    return tc.finish(res, tw, CLAUSES, "twin runs (same scenario generator as C01) with area and feed amount times k (scale), area times k "
                     "and step length divided by k without programme (trade), or different area/amount/step (step-0 fluxes); k = 2^j, "
                     "j in -10..10, or log-uniform in 1e-3..1e3; N <= 6", ("TwinStart", "Pair", "TwinEnd"))


def classify(v, kf):
    if v["invariant"].startswith("Ref_"):
        return ("drift", None)
    return ("violation", None)
