"""C13 — latent and cooling heats are consistent with vapour pressure and heat capacity."""
import os

from .. import core, rec_component
from ..trace import TraceWriter

ASSUMPTIONS = [
    "leg A: cooling-heat clauses exact (rationals, Simpson's rule is exact for cubics); Clausius-Clapeyron in IEEE arithmetic on a 200-500 K sweep of the code's own constant sets + synthetic ones, |T+c| >= 40 K",
    "leg B: Clausius-Clapeyron by central difference (h = 1e-4 T, tolerance 1e-5), algebraic relations at 1e-12 of the magnitude of the terms",
    "Ref_* comparisons with the specification's formulas are reported as DRIFT only",
]
CLAUSES = {
    "Cl_ClausiusClapeyron": "Hvap = R T^2 dlnPsat/dT (central difference on get_vapor_pressure)",
    "Cl_IsIntegral": "cooling heat = integral of get_specific_heat (Simpson, exact for cubics)",
    "Cl_Additive": "additive over adjacent intervals",
    "Cl_Antisymmetric": "antisymmetric",
    "Cl_ZeroOnEmpty": "zero on an empty interval",
    "Cl_Derivative": "d/dT_upper = specific heat",
    "Ref_Psat": "DRIFT: Psat equals the specification's Antoine/Frost formula",
    "Ref_Hvap": "DRIFT: Hvap equals the specification's formula",
    "Ref_Cp": "DRIFT: Cp polynomial", "Ref_Cooling": "DRIFT: antiderivative",
}
MANIFEST = {
    "text": "TLC model-checks tla/Component.tla: the interval-cutting machine with exact rationals (additivity, Simpson integral, "
            "antisymmetry, derivative identity; two wrong antiderivatives must be caught) and a 200-500 K sweep in IEEE arithmetic over "
            "the code's own constant sets (Clausius-Clapeyron by finite difference and analytically; two wrong heat formulas must be "
            "caught); call tables recorded from the real Component methods are validated clause by clause by TLC.",
    "note": "Continuous inputs are sampled (seeded); finite-difference clauses carry a 1e-5 tolerance. Trusted: TLC, Java overrides (StrictMath), recorder.",
    "technique": "TLA+ spec + TLC (exact rationals and IEEE doubles) + TLC validation of recorded call tables",
}


def leg_a(ctx):
    comp_file = os.path.join(ctx.work, "components.ndjson")
    rec_component.export_components(comp_file, ctx.sub_rng(1))
    env = {"COMP_FILE": comp_file}
    out = [
        {"spec": "MC_ComponentQ.tla", "cfg": "MC_ComponentQ.cfg", "coverage": True,
         "what": "interval cutting, 4 polynomials x 15 intervals x cuts <= 2, exact rationals"},
        {"spec": "MC_ComponentQ.tla", "cfg": "MC_ComponentQ_neg_no_half.cfg", "expect": "violates:Inv_Integral,Inv_Derivative,Inv_Additive"},
        {"spec": "MC_ComponentQ.tla", "cfg": "MC_ComponentQ_neg_cube_as_square.cfg", "expect": "violates:Inv_Integral,Inv_Derivative,Inv_Additive"},
        {"spec": "MC_ComponentF64.tla", "cfg": "MC_ComponentF64.cfg", "coverage": True, "env": env,
         "what": "temperature sweep 200..500 K step 7.3 over built-in + 12 synthetic constant sets, IEEE doubles"},
        {"spec": "MC_ComponentF64.tla", "cfg": "MC_ComponentF64_neg_no_square.cfg", "env": env, "expect": "violates:Inv_CC_FiniteDifference,Inv_CC_Analytic"},
        {"spec": "MC_ComponentF64.tla", "cfg": "MC_ComponentF64_neg_frost_c_once.cfg", "env": env, "expect": "violates:Inv_CC_FiniteDifference,Inv_CC_Analytic"},
    ]
    return out


def run(ctx, pool):
    tw = TraceWriter()
    stats = {"nontrivial": set()}
    rec_component.record(tw, ctx.rng, ctx.n(4000, 150000), stats)
    res = core.validate_traces(None, ctx, tw, pool, "Trace_Component.tla", "Trace_Component.cfg")
    hist = core.event_histogram(tw)
    res["coverage"] = {
        "evaluations": res["lines"], "distinct_nontrivial": len(stats["nontrivial"]),
        "rule": "one Vap and one Cool record per drawn component (40% built-in, 60% wide random Antoine/Frost and cubic constants), "
                "T in 200..500 K (Antoine: |T+c| >= 40), temperature pairs in 150..550 K in either order, split points inside or outside; "
                "distinct by (component, T, t0, t1)",
        "events": hist, "clauses": CLAUSES,
        "samples": [tw.traces[0], tw.traces[1], tw.traces[-1]],
    }
    res["required_events"] = {k: hist.get(k, 0) for k in ("Vap", "Cool")}
    res["trace_lookup"] = lambda v: tw.traces[v["record"]["t"]]
    return res


def classify(v, kf):
    if v["invariant"].startswith("Ref_"):
        return ("drift", None)
    return ("violation", None)
