"""C03 — heat balance: evaporation heat, self-cooling and temperature programme are exact."""
from .. import core
from . import _process_common as pc

ASSUMPTIONS = [
    'TLAPS (tla/proofs/ProcessProofs.tla, theorem Init0Holds, checked by tlapm on every run): for EVERY N, arithmetic and environment a returned isothermal model of Process.tla reports the initial feed temperature at every step, and every model starts at the stated amount, composition and temperature on the grid time[k] = k x step',
    "leg A: exact rationals with free heats/heat capacities/programme values",
    "leg B: latent heats, heat capacities and programme values are oracle values of the public Component / TemperatureProgram methods at the reported state; tolerance 1e-12 (1e-9 for the iso/non-iso twin)",
]
CLAUSES = {
    "Cl_Qevap": "Q[k] = d1 h1(T[k]) + d2 h2(T[k]), h_i = Hvap_i/M_i*1000 of component i",
    "Cl_SelfCool": "T[k+1] = T[k] - Q[k]/(m[k] (x[k] cp1 + (1-x[k]) cp2))", "Cl_Programme": "T[k] = programme(time[k]), k >= 1",
    "Cl_IsoConst": "isothermal models never change T", "Cl_QcondIff": "condensation heat reported iff a permeate temperature is given",
    "Cl_Step0Agree": "isothermal and non-isothermal models agree on fluxes and heats at step 0",
    "Ref_ProgramValue": "DRIFT: TemperatureProgram.program equals the specification's polynomial / exponential / logarithmic formula",
}
MANIFEST = {
    "text": "TLC model-checks the heat part of the Process machine with exact rationals (evaporation heat, self-cooling, programme, "
            "isothermal constancy, condensation-heat presence; the original isothermal heat formula D1 is a named deviation that must be "
            "caught) and validates every step of recorded runs, plus step-0 twins of the isothermal and non-isothermal models. tlapm proves for every N that an isothermal run of the same specification reports the initial temperature at every step.",
    "note": "Scenarios sampled. Oracles: public Component.get_vaporisation_heat / get_specific_heat and TemperatureProgram.program.",
    "technique": "TLA+ state machine + TLC (exact rationals) + TLC trace validation of recorded process runs + TLAPS proofs about the same specification module (tlapm)",
}


# proof modules about the specification, checked by tlapm on every run (started by the driver next to leg A)
TLAPS = [("ProcessProofs.tla", ["Process.tla"])]


def leg_a(ctx):
    return pc.LEG_A_PROCESS + [pc.neg("iso_heats_as_written", "Inv_Qevap")]


def run(ctx, pool):
    tw, stats = pc.record_processes(ctx, ctx.n(600, 20000), ctx.n(48, 1500), {"with_std": False})
    jobs = [(ctx.seed * 31 + j, ctx.n(12, 200), True) for j in range(16)] + [(ctx.seed * 37 + 1000 + j, ctx.n(3, 16), False) for j in range(16)]
    for twins in core.parallel("harness.rec_process", "twin0_job", jobs):
        tw.traces.extend(twins)
    res = core.validate_traces(None, ctx, tw, pool, "Trace_Process.tla", "Trace_Process_C03.cfg")
    return pc.finish(res, tw, stats, CLAUSES, pc.RULE + "; plus step-0 twins (same conditions through the isothermal and the "
                     "non-isothermal model, ideal and non-ideal)", required=("Start", "State", "End", "Step0Twin"))


def classify(v, kf):
    if v["invariant"].startswith("Ref_"):
        return ("drift", None)
    return ("violation", None)
