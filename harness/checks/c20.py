"""C20 — modelling calls are pure: no hidden state, arguments untouched, repeatable."""
import json
import re

from .. import core, tlc
from ..trace import TraceWriter

ASSUMPTIONS = [
    'TLAPS (tla/proofs/SessionProofs.tla, checked by tlapm on every run): ArgsUnchanged and SameAsFresh of Session.tla hold for ARBITRARY sets of entry points and objects and any number of calls when no entry point is impure',
    "leg A: the session machine of tla/Session.tla with uninterpreted results: every history of <= 3 calls over 28 entry points; entry points that modify an argument (defect D5 before its repair) are a negative configuration",
    "leg C: TLC (-simulate) generates call histories of length 2, 4, 8 and 12; each is replayed on one shared argument set built from a seed",
    "'fresh interpreter state' is a child process forked from the harness before any modelling call of the history, in which the argument set is rebuilt from the same seed and the call is made first; results are compared through bit-exact digests (floats by repr), the comment strings carrying the wall-clock time are excluded",
]
CLAUSES = {
    "Cl_ArgsUnchanged": "membrane, mixture, curve set, conditions and measurement list deeply unchanged by every call",
    "Cl_BuiltinsUnchanged": "built-in components and mixtures never modified",
    "Cl_SameAsFresh": "each call returns bit-identical results to the same call made first in a fresh state",
    "Cl_CallsKeepHeld": "sessions with the caller's own in-place edits: every call leaves the shared objects holding what the caller put there (= what a pristine process holds after the same edits)",
    "Cl_SameAsFreshOnHeld": "... and returns bit-identical results to the same call made first in a pristine process on objects built to hold the same values",
}
MANIFEST = {
    "text": "TLC model-checks the session machine tla/Session.tla (no call changes an object, so every result equals the fresh-session "
            "result; argument-modifying entry points are a negative configuration) and generates call histories of length 2-12 that are "
            "replayed on shared real objects with deep digests before/after every call and a forked pristine-process oracle for every call; tla/SessionEdit.tla adds the caller's own in-place edits of the shared objects between calls (an entry point answering from an identity-keyed cache is its negative configuration), its simulated histories are replayed the same way with the oracle applying the same edits. tlapm proves ArgsUnchanged and SameAsFresh for arbitrary sets of entry points and objects and any number of calls.",
    "note": "Histories from TLC's simulator (seeded). 'Fresh' is a forked pristine process, not a cold interpreter start.",
    "technique": "TLA+ session machine + TLC (exhaustive + simulation-generated histories replayed) + TLC validation of recorded digests + TLAPS proofs about the same specification module (tlapm)",
}


# proof modules about the specification, checked by tlapm on every run (started by the driver next to leg A)
TLAPS = [('SessionProofs.tla', ['Session.tla'])]


def leg_a(ctx):
    return [{"spec": "MC_Session.tla", "cfg": "MC_Session.cfg", "coverage": True, "workers": 4,
             "what": "all histories of <= 3 calls over 28 entry points"},
            {"spec": "MC_Session.tla", "cfg": "MC_Session_neg_d5.cfg", "expect": "violates:ArgsUnchanged,SameAsFresh", "workers": 2},
            {"spec": "MC_SessionEdit.tla", "cfg": "MC_SessionEdit.cfg", "workers": 4,
             "what": "sessions in which the caller edits shared objects in place between calls (SessionEdit.tla): all histories of <= 5 steps"},
            {"spec": "MC_SessionEdit.tla", "cfg": "MC_SessionEdit_neg_stale.cfg", "expect": "violates:SameAsFreshOnHeld", "workers": 2,
             "what": "an entry point answering from a cache keyed by object identity (named wrong design) must be caught"}]


def run(ctx, pool):
    hs = []
    gen_states = 0
    for n, num in ((2, ctx.n(10, 60)), (4, ctx.n(16, 120)), (8, ctx.n(28, 120)), (12, ctx.n(24, 100))):
        r = tlc.run("MC_Session.tla", "MC_Session_sim%d.cfg" % n, workers=1, workdir=ctx.work,
                    extra=("-simulate", "num=%d" % num, "-depth", str(n + 2), "-seed", str(ctx.seed + n)))
        gen_states += r.generated
        seen = set()
        for ln in r.printed:
            m = re.match(r'^<<"HISTORY", "(.*)">>$', ln)
            if m and m.group(1) not in seen:
                seen.add(m.group(1))
                hs.append(json.loads(m.group(1).replace('\\"', '"')))
    if not hs:
        raise core.MachineryFailure("TLC simulation produced no session histories")
    per = max(1, len(hs) // 32)
    jobs = [(ctx.seed * 8191 + j, hs[j:j + per]) for j in range(0, len(hs), per)]
    tw = TraceWriter()
    for traces in core.parallel("harness.rec_session", "session_job", jobs):
        tw.traces.extend(traces)
    # sessions with the caller's own edits: histories of calls and in-place edits simulated by TLC from SessionEdit.tla
    ehs = []
    for n, num in ((6, ctx.n(16, 150)), (10, ctx.n(12, 150))):
        r = tlc.run("MC_SessionEdit.tla", "MC_SessionEdit_sim%d.cfg" % n, workers=1, workdir=ctx.work,
                    extra=("-simulate", "num=%d" % num, "-depth", str(n + 2), "-seed", str(ctx.seed + 100 + n)))
        gen_states += r.generated
        seen = set()
        for ln in r.printed:
            m = re.match(r'^<<"HISTORY", "(.*)">>$', ln)
            if m and m.group(1) not in seen:
                seen.add(m.group(1))
                h = json.loads(m.group(1).replace('\\"', '"'))
                if any(q["op"] == "edit" for q in h) and any(q["op"] == "call" for q in h):
                    ehs.append(h)
    if not ehs:
        raise core.MachineryFailure("TLC simulation produced no edit-session histories")
    per = max(1, len(ehs) // 16)
    for traces in core.parallel("harness.rec_session", "edit_session_job", [(ctx.seed * 4093 + j, ehs[j:j + per]) for j in range(0, len(ehs), per)]):
        tw.traces.extend(traces)
    res = core.validate_traces(None, ctx, tw, pool, "Trace_Session.tla", "Trace_Session.cfg")
    hist = core.event_histogram(tw)
    res["states"] += gen_states
    entries = {}
    for tr in tw.traces:
        for e in tr[1:]:
            entries[e["entry"]] = entries.get(e["entry"], 0) + 1
    edit_calls = sum(1 for tr in tw.traces for e in tr if e.get("ev") == "EditSessCall" and e.get("edits_so_far", 0) > 0)
    res["coverage"] = {
        "evaluations": hist.get("SessCall", 0), "distinct_nontrivial": len({json.dumps(h) for h in hs}),
        "rule": "call histories of length 2, 4, 8 and 12 over 28 modelling entry points (five of them failing calls or calls on a full-range grid with both pure end points) generated by TLC's simulator from Session.tla; each "
                "replayed on one shared set of argument objects (built-in mixture, membrane, 1-2-curve set, conditions, measurement list); "
                "every call's result digest compared with the digest from a forked pristine process; distinct = distinct histories",
        "tlc_generated_histories": len(hs), "tlc_generated_edit_histories": len(ehs), "calls_made_after_an_edit": edit_calls, "calls_per_entry": entries, "events": hist, "clauses": CLAUSES,
        "samples": [[e.get("entry", e.get("ev")) for e in tw.traces[0]], tw.traces[0][1]],
    }
    res["required_events"] = {k: hist.get(k, 0) for k in ("SessStart", "SessCall", "EditSessCall")}
    res["trace_lookup"] = lambda v: [[e.get("entry", "start") for e in tw.traces[v["record"]["t"]]], v["record"]]
    return res
