"""C06 — results do not depend on which component is called first."""
from .. import core
from . import _twin_common as tc

ASSUMPTIONS = [
    "leg A: product of two Process machines on relabelled inputs (x0 -> 1-x0, fluxes/heats/heat capacities exchanged), exact rationals; IEEE sweep of the Activity specification under relabelling is part of C04's configuration",
    "leg B: twins of thermodynamics, flux solver (explicit and membrane permeances), helpers, ideal curves with their metrics, membrane selectivity and ideal process models; tolerance 1e-9",
    "known finding D3: under UNIQUAC the code's gamma_2 is not the mirror image of gamma_1; UNIQUAC twins are accepted when the gammas of the code are asymmetric at the probe points, NRTL twins are checked at full strength",
]
CLAUSES = {
    "Cl_FnRel": "activity coefficients, partial pressures, fluxes exchanged; permeate fraction complemented; separation factor and selectivity inverted",
    "Cl_PairRel": "every process step: mass, temperature, heats equal, composition complemented, fluxes and permeances exchanged",
    "Cl_MetricsRel": "separation-factor and selectivity series invert", "KF_D3_Swap": "probe: strict relabelling symmetry under UNIQUAC",
}
MANIFEST = {
    "text": "TLC model-checks the product of two Process machines on relabelled inputs with exact rationals (the original isothermal heat "
            "formula D1 and a one-sided mass balance are named wrong designs that must break the symmetry) and validates relabelled twins "
            "of the real thermodynamics, solver, helpers, ideal curves, metrics and ideal process models.",
    "note": "Scenarios sampled. While known finding D3 is present, UNIQUAC twins are decided only up to 'explained by the gamma-level asymmetry'.",
    "technique": "TLA+ product (twin) state machine + TLC (exact rationals) + TLC validation of recorded relabelled twins; named-deviation matching for D3",
}


def leg_a(ctx):
    return [
        {"spec": "MC_TwinQ.tla", "cfg": "MC_TwinQ_swap.cfg", "workers": 4, "coverage": True, "what": "relabelling, product machine"},
        {"spec": "MC_TwinQ.tla", "cfg": "MC_TwinQ_swap_neg_iso_heats.cfg", "expect": "violates:Inv_Related", "workers": 2,
         "what": "the isothermal heats as originally written (D1) break the symmetry"},
        {"spec": "MC_TwinQ.tla", "cfg": "MC_TwinQ_swap_neg_mass_one_flux.cfg", "expect": "violates:Inv_Related,Inv_SameGuards", "workers": 2},
    ]


def run(ctx, pool):
    plan = [("swap", "function", None, ctx.n(500, 25000), ctx.n(16, 200)),
            ("swap", "process", ["ideal_iso", "ideal_noniso"], ctx.n(300, 12000), ctx.n(10, 100))]
    tw = tc.record(ctx, plan)
    tc.mark_probes(tw)
    res = core.validate_traces(None, ctx, tw, pool, "Trace_Twin.tla", "Trace_Twin.cfg")
    return tc.finish(res, tw, CLAUSES, "relabelled twins: mixture with components, NRTL/UNIQUAC parameters, composition (p -> 1-p) and "
                     "permeances exchanged; function level (gammas, partial pressures, solver, helpers, 3-point ideal curve + metrics, "
                     "membrane selectivity) and ideal isothermal / non-isothermal processes (N <= 6)", ("FnTwin", "TwinStart", "Pair"))


def classify(v, kf):
    inv = v["invariant"]
    if inv.startswith("Ref_"):
        return ("drift", None)
    if inv == "KF_D3_Swap":
        for f in kf.get("findings", []):
            if f.get("property") == "C06" and f.get("deviation") == "Activity!UQGamma2_AsImplemented":
                return ("known", "UNIQUAC results are not symmetric under relabelling of the components (gamma_2 as implemented) [D3]")
        return ("violation", None)
    return ("violation", None)
