"""C17 — saved curves, functions, conditions and process models load back unchanged."""
import json
import os
import re
import shutil

from .. import core, tlc
from ..trace import TraceWriter

ASSUMPTIONS = [
    'TLAPS (tla/proofs/StoreProofs.tla, LoaderProofs.tla, checked by tlapm on every run): OldDirsImmutable, FreshDirOrRaise, RoundTrip of Store.tla and LoadOnlyAddsResults, NeverEmptyObject of Loader.tla are proved for ARBITRARY sets of names / models / entries and any history length (TLC enumerates small instances)',
    "file formats (CSV, joblib, JSON) are opaque: objects are compared through projected field values after load; directories through md5 digests of every file",
    "leg A: all histories of <= 3 saves (+ loads) over 2 directory names x 2 models x both storage modes; mkdir(exist_ok=True) is a named wrong design that must be caught",
    "leg C: TLC (-simulate) generates save/load histories over 3 names x 4 models; equal abstract names are forced to collide by pinning the harness-side clock the directory name is derived from; scratch directories live under /verif/.work and are removed",
    "only built-in mixtures can be re-loaded by name (the file stores the mixture name)",
    "thorough tier: Apalache discharges, for tla/StoreApa.tla and tla/LoaderApa.tla (typed copies without the bound on the history length), an "
    "inductive invariant and the action properties on one step from ANY state satisfying it - i.e. for save/load and edit/load histories of "
    "any length over 4 names x 3 models / 3 curve-set entries; the named wrong designs are refuted the same way",
    "membrane directories (tla/Loader.tla): TLC enumerates all 102 layouts of ideal_experiments.csv x diffusion_curve_sets/ (entries good / wrong "
    "columns / ignorable) x results/ and simulates histories of directory edits and loads; each is built on disk and loaded with the public "
    "Membrane.load; curves written by the public writer must come back unchanged (clause); outcome, returned object, 'a load only ever adds "
    "results/' and idempotence are compared with the specification as DRIFT (they are not clauses of C17)",
]
CLAUSES = {
    "Cl_OldDirsImmutable": "every file present before a save is present and unchanged after it",
    "Cl_FreshDirOrRaise": "a save creates exactly one new process directory; a name collision raises and changes nothing",
    "Cl_RoundTripModel": "process model: every persisted numeric field equal to 1e-9, same mixture, units, permeate condition, lengths, conditions, fits",
    "Cl_RoundTripCurve": "diffusion curve: fields equal, physically identical compositions", "Cl_ReloadIsMassFraction": "curves / models re-load as mass fractions",
    "Cl_RoundTripFunction": "permeance function, binary and JSON", "Cl_RoundTripConditions": "initial conditions, JSON",
    "Cl_RoundTripCurveViaMembrane": "curve sets written with the public writer into a membrane directory come back unchanged through Membrane.load",
}
MANIFEST = {
    "text": "TLC model-checks the results store tla/Store.tla (existing directories immutable, fresh directory or raise, round trip; "
            "overwriting is a named wrong design) and generates save/load histories with forced name collisions that are replayed in a scratch "
            "membrane directory; directory digests and loaded objects are validated by TLC; curves, permeance functions and conditions are "
            "round-tripped with values over 1e-9..1e3 and None-valued optional fields. tlapm proves the store and membrane-directory properties for arbitrary sets of names and any history; the thorough tier adds Apalache inductive checks of typed copies.",
    "note": "Histories from TLC's simulator (seeded). Trusted: TLC, Java overrides, recorder (md5, projection functions).",
    "technique": "TLA+ store state machine + TLC (exhaustive + simulation-generated histories replayed) + TLC validation of recorded saves/loads + TLAPS proofs (tlapm) + Apalache inductive checks",
}


# proof modules about the specification, checked by tlapm on every run (started by the driver next to leg A)
TLAPS = [('StoreProofs.tla', ['Store.tla']), ('LoaderProofs.tla', ['Loader.tla'])]


def leg_a(ctx):
    return [{"spec": "MC_Store.tla", "cfg": "MC_Store.cfg", "coverage": True, "workers": 2,
             "what": "all histories of <= 3 saves and any loads over 2 names x 2 models x safe/unsafe"},
            {"spec": "MC_Store.tla", "cfg": "MC_Store_rename.cfg", "coverage": True, "workers": 2,
             "what": "the other admissible collision design (another fresh name instead of raising): the same properties hold, 3 names"},
            {"spec": "MC_Store.tla", "cfg": "MC_Store_neg_overwrite.cfg", "expect": "violates:OldDirsImmutable,FreshDirOrRaise", "workers": 2},
            {"spec": "MC_Loader.tla", "cfg": "MC_Loader.cfg", "coverage": True, "workers": 2,
             "what": "membrane directory: all histories of <= 5 edits/loads over 2 curve-set entries x {good, wrong columns, ignorable}"},
            {"spec": "MC_Loader.tla", "cfg": "MC_Loader_neg_mkdir.cfg", "expect": "violates:LoadOnlyAddsResults", "workers": 2}]


def loader_leg(ctx, pool, scratch):
    """membrane directories: TLC's layout table and simulated edit/load histories, replayed with Membrane.load"""
    lay_file = os.path.join(ctx.work, "layouts.ndjson")
    r = tlc.run("MC_Loader.tla", "MC_Loader.cfg", workers=2, env={"LAYOUT_FILE": lay_file}, workdir=ctx.work)
    if not r.ok:
        raise core.MachineryFailure("MC_Loader failed: %s %s" % (r.violated_names(), r.errors[:2]))
    rows = [json.loads(x) for x in open(lay_file) if x.strip()]
    nh = ctx.n(60, 1500)
    rs = tlc.run("MC_LoaderSim.tla", "MC_LoaderSim.cfg", workers=1, workdir=ctx.work,
                 extra=("-simulate", "num=%d" % nh, "-depth", "14", "-seed", str(ctx.seed + 11)))
    hs, seen = [], set()
    for ln in rs.printed:
        m = re.match(r'^<<"HISTORY", "(.*)">>$', ln)
        if m and m.group(1) not in seen:
            seen.add(m.group(1))
            hs.append(json.loads(m.group(1).replace('\\"', '"')))
    if not hs:
        raise core.MachineryFailure("TLC simulation produced no loader histories: %s" % (rs.errors[:2] or rs.out[-400:]))
    reps = ctx.n(1, 6)
    allrows = rows * reps
    per_r, per_h = max(1, len(allrows) // 16), max(1, len(hs) // 16)
    jobs = [(ctx.seed * 60013 + j, allrows[j * per_r:(j + 1) * per_r], hs[j * per_h:(j + 1) * per_h], scratch) for j in range(17)]
    tw = TraceWriter()
    for traces in core.parallel("harness.rec_loader", "loader_job", jobs):
        tw.traces.extend(traces)
    res = core.validate_traces(None, ctx, tw, pool, "Trace_Loader.tla", "Trace_Loader.cfg", tag="loader")
    res["failures"] = []
    done = set()
    for tr in tw.traces:
        if tr[0].get("source") == "layout":
            f = tr[1]["fs"]
            done.add((f["csv"], f["hasSets"], f["results"], tuple((e["name"], e["kind"]) for e in f["entries"])))
    want = {(w["csv"], w["hasSets"], w["results"], tuple(sorted((e["name"], e["kind"]) for e in w["entries"]))) for w in rows}
    if len(rows) != 102:
        res["failures"].append("expected 102 membrane-directory layouts from TLC, got %d" % len(rows))
    if want - done:
        res["failures"].append("layout rows without an execution: %s" % sorted(want - done)[:3])
    loads = [e for tr in tw.traces for e in tr if e.get("ev") == "Load"]
    outcomes = {}
    for e in loads:
        outcomes[e["outcome"]] = outcomes.get(e["outcome"], 0) + 1
    cov = {"layout_rows": len(rows), "layout_rows_covered": len(want & done), "tlc_generated_histories": len(hs), "loads": len(loads),
           "outcomes": outcomes, "curves_round_tripped": sum(len(e["curves_orig"]) for e in loads),
           "spec_states": r.distinct}
    return res, cov


def run(ctx, pool):
    n = ctx.n(32, 400)
    r = tlc.run("MC_StoreSim.tla", "MC_StoreSim.cfg", workers=1, workdir=ctx.work,
                extra=("-simulate", "num=%d" % n, "-depth", "10", "-seed", str(ctx.seed + 5)))
    hs, seen = [], set()
    for ln in r.printed:
        m = re.match(r'^<<"HISTORY", "(.*)">>$', ln)
        if m and m.group(1) not in seen:
            seen.add(m.group(1))
            hs.append(json.loads(m.group(1).replace('\\"', '"')))
    if not hs:
        raise core.MachineryFailure("TLC simulation produced no store histories: %s" % (r.errors[:2] or r.out[-400:]))
    hs = hs[:n]
    scratch = os.path.join(ctx.work, "scratch")
    per = max(1, len(hs) // 16)
    jobs = [(ctx.seed * 50021 + j, hs[j:j + per], ctx.n(4, 60), scratch) for j in range(0, len(hs), per)]
    tw = TraceWriter()
    for traces in core.parallel("harness.rec_store", "store_job", jobs):
        tw.traces.extend(traces)
    shutil.rmtree(scratch, ignore_errors=True)
    res = core.validate_traces(None, ctx, tw, pool, "Trace_Store.tla", "Trace_Store.cfg")
    resL, covL = loader_leg(ctx, pool, scratch)
    for k in ("violations",):
        res[k] = res[k] + resL[k]
    for k in ("states", "transitions", "traces"):
        res[k] += resL[k]
    hist = core.event_histogram(tw)
    collisions = sum(1 for tr in tw.traces for e in tr if e.get("ev") == "Save" and e.get("collision"))
    res["states"] += r.generated
    res["coverage"] = {
        "evaluations": sum(hist.get(k, 0) for k in ("Save", "Load", "RTCurve", "RTFunction", "RTConditions")),
        "distinct_nontrivial": len(seen) + hist.get("RTCurve", 0),
        "rule": "save/load histories of 6-7 operations generated by TLC's simulator from Store.tla (3 abstract directory names, 4 models = "
                "one process model per kind on a built-in mixture, safe/unsafe), replayed in a scratch directory with the directory-name "
                "clock pinned per abstract name; plus round trips of curves (from permeances or fluxes, molar or mass compositions, values "
                "1e-9..1e3), permeance functions (binary, JSON) and conditions (JSON, optional fields None); distinct = distinct histories + curves",
        "forced_collisions": collisions, "tlc_generated_histories": len(hs), "events": hist, "clauses": CLAUSES, "membrane_directories": covL,
        "samples": [[{k: v for k, v in e.items() if k in ("ev", "model", "safe", "name", "outcome", "dirs_after")} for e in tw.traces[0][:5]]],
    }
    res["required_events"] = {k: hist.get(k, 0) for k in ("Save", "Load", "RTCurve", "RTFunction", "RTConditions")}
    res["failures"] = list(resL.get("failures", []))
    apa = {"ran": False, "why": "thorough tier only"}
    if not ctx.quick:
        step = lambda inv: ["--init=IndInv", "--inv=" + inv, "--length=1"]
        a1, f1 = core.apalache(ctx, "StoreApa.tla",
                               [("base", ["--init=AInit", "--inv=IndInv", "--length=0"]), ("inductive_step", step("IndInv")),
                                ("OldDirsImmutable_any_history", step("OldDirsImmutableA")), ("FreshDirOrRaise_any_history", step("FreshDirOrRaiseA"))],
                               [("overwrite", ["--cinit=CInitNeg"] + step("OldDirsImmutableA"))])
        a2, f2 = core.apalache(ctx, "LoaderApa.tla",
                               [("base", ["--init=AInit", "--inv=IndInv", "--length=0"]), ("inductive_step", step("IndInv")),
                                ("LoadOnlyAddsResults_any_history", step("LoadOnlyAddsResultsA")), ("LoadIdempotent_any_history", step("LoadIdempotentA"))],
                               [("mkdir_first", ["--cinit=CInitNeg"] + step("LoadOnlyAddsResultsA"))])
        apa = {"store": a1, "loader": a2}
        res["failures"].extend(f1 + f2)
    res["coverage"]["apalache_unbounded"] = apa
    if collisions == 0:
        res["failures"].append("vacuous: no forced directory-name collision occurred")
    res["trace_lookup"] = lambda v: [{k: x for k, x in v["record"].items() if k not in ("before", "after", "fields")}]
    return res


def classify(v, kf):
    if v["invariant"].startswith(("Ref_", "Step_")):
        return ("drift", None)
    return ("violation", None)
