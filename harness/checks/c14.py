"""C14 — permeance unit conversion is an exact, invertible change of units."""
from .. import core, rec_units
from ..trace import TraceWriter

ASSUMPTIONS = [
    "leg A: exact rationals; all 9 ordered unit pairs and 27 triples, 4 molar masses, 6 values incl. 0 and a negative one",
    "leg B: seeded sampling of values 0 and 1e-12..1e6 (log-uniform), all built-in components and random molar masses 1..1000",
    "tolerance 1e-12 relative (the conversions are two multiplications/divisions)",
]
CLAUSES = {
    "Step_New": "construction clamps negative values to 0",
    "Step_Conv": "recorded conversion is the specification's conversion (value, units, raise/ok)",
    "Cl_PathIndependent": "A->B->C equals A->C",
    "Cl_Invertible": "A->B->A returns the original value",
    "Cl_Linear": "conversion is linear in the value",
    "Cl_NonNegative": "values are never negative",
    "Cl_Identity": "equal units: identity",
    "Cl_Raises": "missing component / unknown unit raises",
    "Cl_SameObjectTwice": "one Permeance object converted to one target with two different components: each answer uses the component it was given, the object is unchanged",
    "Cl_Factors": "1 kg/(m2 h kPa) = 1/(3600 M) SI, 1 GPU = 3.35e-10 SI",
    "KnownEvent": "every recorded event is an action of the specification",
}
MANIFEST = {
    "text": "TLC model-checks every conversion path of length <= 3 of tla/Units.tla with exact rationals (path independence, "
            "invertibility, linearity, factors, must-raise table; three wrong designs must be caught) and validates conversion "
            "chains recorded from the real Permeance class against the same operators in IEEE arithmetic.",
    "note": "Exhaustive over the specification's unit/argument table; values are sampled for the code. Trusted: TLC, Java overrides, recorder.",
    "technique": "TLA+ spec + TLC (exact rationals) + TLC trace validation of recorded conversion chains",
}


def leg_a(ctx):
    out = [{"spec": "MC_Units.tla", "cfg": "MC_Units.cfg", "coverage": True,
            "what": "all conversion paths <= 3 over {kg, SI, GPU, unknown} x component given or not, exact rationals"}]
    for d, inv in (("gpu_not_reciprocal", "Inv_PathIndependent,Inv_Invertible"), ("kg_forgets_mass", "Inv_PathIndependent,Inv_Factors"),
                   ("no_raise", "StepIsConvRel")):
        out.append({"spec": "MC_Units.tla", "cfg": "MC_Units_neg_%s.cfg" % d, "expect": "violates:" + inv,
                    "what": "wrong design '%s' must be caught" % d})
    return out


def run(ctx, pool):
    tw = TraceWriter()
    stats = {"nontrivial": set()}
    rec_units.record(tw, ctx.rng, ctx.n(3000, 120000), stats)
    res = core.validate_traces(None, ctx, tw, pool, "Trace_Units.tla", "Trace_Units.cfg")
    hist = core.event_histogram(tw)
    res["coverage"] = {
        "evaluations": res["lines"], "distinct_nontrivial": len(stats["nontrivial"]),
        "rule": "chains of 2-4 convert() calls on real Permeance objects v and k*v (targets: the 3 units and an unknown one, "
                "component supplied with probability 0.8); non-trivial = positive value, distinct by (v, k, M, unit)",
        "events": hist, "clauses": CLAUSES,
        "samples": [tw.traces[0], tw.traces[len(tw.traces) // 3], tw.traces[-1]],
    }
    res["required_events"] = {k: hist.get(k, 0) for k in ("New", "Conv", "Factors")}
    res["trace_lookup"] = lambda v: tw.traces[v["record"]["t"]]
    return res
