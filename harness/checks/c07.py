"""C07 — results do not depend on mole- vs mass-fraction input basis."""
from .. import core
from . import _twin_common as tc

ASSUMPTIONS = [
    "leg A: the conversion machine of C15 (exact rationals) is the design-level statement; at the Process level rebasing is the identity after Start (Composition.to_weight), model-checked through MC_Composition",
    "leg B: every public modelling entry point is called with a mass-fraction input and with the equivalent mole-fraction input; tolerance 1e-9 (plus the conditioning of 1-y for ratios)",
    "fitted coefficients are compared only through their inputs (measurement points), as the property says",
]
CLAUSES = {
    "Cl_FnRel": "solver (explicit / membrane permeances), permeate composition, separation factor, ideal curve and its metrics: equal",
    "Cl_PairRel": "all four process models: every step equal", "Cl_ReportsMassFraction": "process models report mass fractions",
    "Cl_MetricsRel": "process separation factor / selectivity / PSI equal",
    "Cl_CurveTwin": "non-ideal diffusion curve: equal fluxes, permeances, mass-fraction compositions",
    "Cl_MeasTwin": "measurement points extracted from a mole-fraction curve set equal those of the mass-fraction set",
}
MANIFEST = {
    "text": "The basis conversion is model-checked exactly as the Composition machine (MC_Composition); twins of every public modelling entry "
            "point (solver, helpers, ideal and non-ideal curves, four process models, metrics, measurement extraction) executed with mass- and "
            "mole-fraction inputs are validated by TLC output by output.",
    "note": "Scenarios sampled. Trusted: TLC, Java overrides, recorder.",
    "technique": "TLA+ spec (Composition/Twin/Extract) + TLC + TLC validation of recorded basis twins",
}
KINDS = ["ideal_iso", "ideal_noniso", "nonideal_iso", "nonideal_noniso"]


def leg_a(ctx):
    return [{"spec": "MC_Composition.tla", "cfg": "MC_Composition.cfg", "coverage": True, "workers": 4,
             "what": "conversion machine, exact rationals (round trip, ratio law)"},
            {"spec": "MC_Composition.tla", "cfg": "MC_Composition_neg_swap_m.cfg", "expect": "violates:Inv_RatioLaw,StepIsConvRel"},
            {"spec": "MC_ExtractQ.tla", "cfg": "MC_ExtractQ.cfg", "workers": 4,
             "what": "measurement extraction (Extract.tla) on every set of <= 2 curves x <= 2 points, exact rationals: complete, in order, "
                     "the same from a mass- and from a mole-fraction statement of the set"},
            {"spec": "MC_ExtractQ.tla", "cfg": "MC_ExtractQ_neg_sorted.cfg", "expect": "violates:Inv_OrderKept", "workers": 2},
            {"spec": "MC_ExtractQ.tla", "cfg": "MC_ExtractQ_neg_dedupe.cfg", "expect": "violates:Inv_Complete,Inv_OrderKept", "workers": 2},
            {"spec": "MC_ExtractQ.tla", "cfg": "MC_ExtractQ_neg_drop_zero.cfg", "expect": "violates:Inv_Complete,Inv_OrderKept", "workers": 2},
            {"spec": "MC_ExtractQ.tla", "cfg": "MC_ExtractQ_neg_raw_x.cfg", "expect": "violates:Inv_BasisFree", "workers": 2}]


def run(ctx, pool):
    plan = [("rebase", "function", None, ctx.n(500, 25000), ctx.n(16, 200)),
            ("rebase", "process", KINDS[:2], ctx.n(200, 8000), ctx.n(10, 100)),
            ("rebase", "process", KINDS[2:], ctx.n(32, 800), ctx.n(1, 10))]
    tw = tc.record(ctx, plan)
    jobs = [(ctx.seed * 15485863 + j, ctx.n(1, 12), "curve") for j in range(ctx.n(24, 64))]
    jobs += [(ctx.seed * 32452843 + j, ctx.n(8, 100), "meas") for j in range(16)]
    for traces in core.parallel("harness.rec_twins", "extras_job", jobs):
        tw.traces.extend(traces)
    res = core.validate_traces(None, ctx, tw, pool, "Trace_Twin.tla", "Trace_Twin.cfg")
    return tc.finish(res, tw, CLAUSES, "basis twins: the same physical composition as mass fraction and as mole fraction for the flux "
                     "solver and helpers, 3-point ideal curves, all four process models (initial feed), non-ideal diffusion curves (initial "
                     "feed, fixed curve set) and measurement extraction (curve set in either basis)",
                     ("FnTwin", "TwinStart", "Pair", "CurveTwin", "MeasTwin"))


def classify(v, kf):
    if v["invariant"].startswith("Ref_"):
        return ("drift", None)
    return ("violation", None)
