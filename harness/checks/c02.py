"""C02 — returned fluxes obey the solution-diffusion law at a self-consistent permeate."""
import os

from .. import core, rec_solver
from ..trace import TraceWriter

ASSUMPTIONS = [
    'TLAPS (tla/proofs/FluxSolverProofs.tla, checked by tlapm on every run): for EVERY input, arithmetic (uninterpreted, Eq reflexive) and permeate-pressure map the machine of FluxSolverCore.tla returns only after a change below the requested precision, and the returned fluxes are the solution-diffusion law at the composition it stopped at',
    "leg A: exact rationals with vacuum / pressure / ideal-permeate (affine) permeate sides; IEEE arithmetic over the reference thermodynamics on near-equilibrium scenarios of the code's own mixtures",
    "leg B: every evaluation of the driving force observed through a harness-side wrapper of the public method get_partial_fluxes_from_permeate_composition; feed/permeate partial pressures are oracle values of the public get_partial_pressures",
    "self-consistency is asserted when the local contraction factor measured with two extra public calls is < 0.9",
    "relations are asserted on finite operands; scaling twins are compared at rounding level only when both runs took the same number of evaluations",
]
CLAUSES = {
    "Step_Seed": "first evaluation at y0 = Y(P (.) pf)", "Step_Iterate": "y_{n+1} = Y(J_n)",
    "Step_LoopRule": "loop continued iff the last change >= precision", "Step_Final": "returned fluxes = last evaluation",
    "Cl_Law": "J_i = P_i (pf_i - pp_i(y)) at every evaluation, one consistent basis for p*fraction",
    "Cl_LawAtOwnComposition": "J_i = P_i (pf_i - pp_i(Y(J))) up to P_i |dpp_i/dy| precision: the law at the returned fluxes' own composition (no observation of the iteration needed)",
    "Cl_SelfConsistent": "|Y(J) - y*| <= precision when locally contractive",
    "Cl_VacuumExact": "no condition or p = 0: J_i = P_i pf_i", "Cl_PPIdentity": "J1/P1 + J2/P2 = pf1 + pf2 - p",
    "Cl_Homogeneous": "k*P gives k*J and the same permeate composition",
    "Ref_Eval": "DRIFT: evaluation equals the reference thermodynamics of the specification",
}
MANIFEST = {
    "text": "TLC model-checks the FluxSolver state machine (Seed/Iterate/Exit/GiveUp) with exact rationals (law, pressure identity, vacuum "
            "identity, homogeneity, refinement of the abstract loop; two wrong designs must be caught) and over the reference thermodynamics in "
            "IEEE arithmetic; every evaluation of real solver calls is recorded and validated by TLC as a behaviour of that machine with all "
            "clauses of C02 as invariants. tlapm proves for every input, arithmetic and permeate-pressure map that the specified machine returns only below the requested precision with the law at its stopping composition.",
    "note": "Inputs sampled over the C02 domain (seeded, incl. near-equilibrium permeate temperatures). Trusted: TLC, Java overrides, the "
            "wrapper/recorder, the public get_partial_pressures as oracle.",
    "technique": "TLA+ state machine + TLC (rationals, IEEE) + TLC trace validation of wrapped solver iterations + TLAPS proofs about the same specification module (tlapm)",
}


# proof modules about the specification, checked by tlapm on every run (started by the driver next to leg A)
TLAPS = [('FluxSolverProofs.tla', ['FluxSolverCore.tla'])]


def leg_a(ctx):
    inp = os.path.join(ctx.work, "mc_inputs.ndjson")
    scs = rec_solver.mc_scenarios(ctx.sub_rng(2), ctx.n(600, 10000))
    for sc in scs:
        sc["variant"] = "UNIQUAC_AsImplemented" if sc["model"] == "UNIQUAC" else "NRTL"
    rec_solver.export_inputs(inp, scs)
    return [
        {"spec": "MC_FluxSolverQ.tla", "cfg": "MC_FluxSolverQ.cfg", "coverage": True, "workers": 1,
         "what": "48 inputs x 3 permeate modes, exact rationals, MaxIter 60, liveness + refinement of FluxLoopAbstract"},
        {"spec": "MC_FluxSolverQ.tla", "cfg": "MC_FluxSolverQ_neg_drop_p2.cfg", "expect": "violates:Inv_PPIdentity", "workers": 1},
        {"spec": "MC_FluxSolverQ.tla", "cfg": "MC_FluxSolverQ_neg_no_final.cfg", "expect": "violates:Inv_Law,Inv_FunctionAgrees", "workers": 1},
        {"spec": "MC_FluxSolverF64.tla", "cfg": "MC_FluxSolverF64_C02.cfg", "env": {"INPUT_FILE": inp}, "workers": 8, "coverage": True,
         "what": "%d near-equilibrium scenarios over the reference thermodynamics, MaxIter 400" % len(scs)},
    ]


def run(ctx, pool):
    n = ctx.n(2400, 160000)
    per = max(150, n // 64)
    jobs = [(ctx.seed * 100003 + j, per, 0.3, None) for j in range((n + per - 1) // per)]
    tw = TraceWriter()
    stats = {"nontrivial": set(), "outcomes": {}}
    for traces, st in core.parallel("harness.rec_solver", "record_job", jobs):
        tw.traces.extend(traces)
        stats["nontrivial"] |= st["nontrivial"]
        for k, v in st["outcomes"].items():
            stats["outcomes"][k] = stats["outcomes"].get(k, 0) + v
        stats["max_n"] = max(stats.get("max_n", 0), st.get("max_n", 0))
    res = core.validate_traces(None, ctx, tw, pool, "Trace_FluxSolver.tla", "Trace_FluxSolver_C02.cfg")
    hist = core.event_histogram(tw)
    res["coverage"] = {
        "evaluations": len(tw.traces), "distinct_nontrivial": len(stats["nontrivial"]),
        "rule": "random solver calls over the C02 domain (60% built-in mixtures, both models, vacuum / permeate temperature (35% within "
                "0.05..15 K of the feed temperature, else 120 K..T) / permeate pressure 0..100 kPa / pressure 0, permeances and precision "
                "log-uniform); non-trivial = returned, permeate condition active, more than 2 evaluations",
        "events": hist, "outcomes": stats["outcomes"], "max_evaluations_in_one_call": stats.get("max_n"), "clauses": CLAUSES,
        "samples": [tw.traces[0], tw.traces[len(tw.traces) // 2][:6]],
    }
    res["required_events"] = {k: hist.get(k, 0) for k in ("Call", "End", "Twin")}
    # the iteration is observed through the public per-composition method; a solver that no longer goes through it is still decided
    # (fluxes at their own composition, CPU-time guard), with the clauses on single evaluations not exercised
    res["coverage"]["iterations_observable"] = hist.get("Eval", 0) > 0
    res["trace_lookup"] = lambda v: tw.traces[v["record"]["t"]][:80]
    return res


def classify(v, kf):
    # Step_* say that the recorded evaluations are steps of the specification's machine; a different but
    # property-preserving iteration scheme is DRIFT, not a violation of C02
    if v["invariant"].startswith("Ref_") or v["invariant"].startswith("Step_"):
        return ("drift", None)
    return ("violation", None)
