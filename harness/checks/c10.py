"""C10 — the flux calculation always terminates."""
import os

from .. import core, rec_solver, tlc
from ..trace import TraceWriter

ASSUMPTIONS = [
    'TLAPS (tla/proofs/FluxSolverProofs.tla): the concrete machine of FluxSolverCore.tla performs at most MaxIter iterations for EVERY input, arithmetic, permeate-pressure map and natural MaxIter',
    'TLAPS (tla/proofs/FluxLoopProofs.tla, checked by tlapm on every run): for EVERY natural MaxIter the bounded abstract loop of FluxLoopAbstract.tla performs at most MaxIter iterations and MaxIter - n strictly decreases while it iterates (TLC enumerates MaxIter = 4 only)',
    "leg A: the abstract loop (the change per iteration is arbitrary) terminates within the bound for every map; unbounded variant violates liveness",
    "leg A/C: TLC runs the FluxSolver machine over the reference thermodynamics (UNIQUAC as implemented) on near-equilibrium scenarios; the inputs on which it runs into the bound are replayed on the real solver",
    "leg B: every real call must end in return or raise within the harness budget of 250000 evaluations (an evaluation counter, not wall-clock); absence of non-termination for inputs not run rests on the code containing a bound",
]
CLAUSES = {
    "Cl_Terminates": "call ends in return or raise within the evaluation budget",
    "Cl_TwinTerminates": "the scaled twin call ends too",
    "Cl_ModelTerminates": "process / curve model with N steps returns or raises with boundedly many evaluations",
    "Step_*": "DRIFT: recorded evaluations are steps of the FluxSolver machine",
}
MANIFEST = {
    "text": "TLC proves termination of the abstract flux loop for every map given the iteration bound (liveness under weak fairness, bounded "
            "counter) and exhibits the non-terminating lasso without it; on the concrete reference map in IEEE arithmetic TLC finds the inputs "
            "that run into the bound (attracting cycles) and these, plus random calls over the C02 domain and whole process/curve models, are run "
            "on the real solver under an evaluation counter and validated by TLC (every call returns or raises). tlapm proves the iteration bound for every natural MaxIter, input and map (abstract and concrete machine).",
    "note": "For the code the claim is for explored inputs; 'for every input' rests on the iteration bound observed as GiveUp events. Trusted: "
            "TLC, Java overrides, the wrapper (a counter, never wall-clock).",
    "technique": "TLA+ liveness checking (TLC) + lasso-guided replay into the real solver + TLC trace validation + TLAPS proofs about the same specification modules (tlapm)",
}


# proof modules about the specification, checked by tlapm on every run (started by the driver next to leg A)
TLAPS = [('FluxLoopProofs.tla', ['FluxLoopAbstract.tla']), ('FluxSolverProofs.tla', ['FluxSolverCore.tla'])]


def leg_a(ctx):
    return [
        {"spec": "MC_FluxLoopAbstract.tla", "cfg": "MC_FluxLoopAbstract.cfg", "coverage": True, "workers": 1,
         "what": "abstract loop, MaxIter 4: <>Done and n <= MaxIter for every behaviour"},
        {"spec": "MC_FluxLoopAbstract.tla", "cfg": "MC_FluxLoopAbstract_neg_unbounded.cfg", "workers": 1,
         "expect": "violates:Terminates", "what": "without the bound the loop need not terminate (a lasso: the counter of the unbounded variant is kept modulo 2)"},
        {"spec": "MC_FluxSolverQ.tla", "cfg": "MC_FluxSolverQ.cfg", "coverage": True, "workers": 1,
         "what": "concrete machine with exact rationals refines the abstract loop and terminates"},
    ]


def apalache(ctx):
    """inductive invariant of the abstract loop for a SYMBOLIC bound (every MaxIter, not only the value TLC enumerates):
    Init => IndInv, IndInv /\\ Next => IndInv', and the termination measure MaxIter - n strictly decreases while looping.
    Thorough tier only; a timeout is reported, an error is a machinery failure."""
    import shutil
    import subprocess
    if shutil.which("apalache-mc") is None:
        return {"ran": False, "why": "apalache-mc not on PATH"}, []
    out_dir = os.path.join(ctx.work, "apalache")
    res, fails = {"ran": True, "obligations": []}, []
    obligations = [("base", ["--init=AInit", "--inv=IndInv", "--length=0"]),
                   ("inductive_step", ["--init=IndInv", "--inv=IndInv", "--length=1"]),
                   ("measure_decreases", ["--init=IndInv", "--inv=MeasureDecreases", "--length=1"])]
    for name, args in obligations:
        cmd = ["apalache-mc", "check", "--cinit=CInit", "--next=ANext", "--out-dir=" + out_dir] + args + ["FluxLoopApa.tla"]
        try:
            p = subprocess.run(cmd, cwd=tlc.TLA_DIR, stdout=subprocess.PIPE, stderr=subprocess.STDOUT, text=True, timeout=300)
            ok = "EXITCODE: OK" in p.stdout
            res["obligations"].append({"name": name, "discharged": ok})
            if not ok:
                fails.append("apalache obligation %s not discharged: %s" % (name, p.stdout[-300:]))
        except subprocess.TimeoutExpired:
            res["obligations"].append({"name": name, "discharged": False, "timeout": True})
    shutil.rmtree(out_dir, ignore_errors=True)
    return res, fails


def hunt(ctx, scs):
    """TLC over the reference map: which scenarios run into the bound (NotStuck violated)?"""
    inp = os.path.join(ctx.work, "hunt_inputs.ndjson")
    rec_solver.export_inputs(inp, scs)
    r = tlc.run("MC_FluxSolverF64.tla", "MC_FluxSolverF64.cfg", workers=8, cont=True, env={"INPUT_FILE": inp},
                workdir=ctx.work, timeout=2400, heap="6g")
    if r.errors or not r.completed:
        raise core.MachineryFailure("hunt: TLC failed: %s" % (r.errors or r.out[-800:]))
    stuck, other = set(), []
    for v in r.violations:
        if v["name"] == "NotStuck":
            stuck.add(int(v["states"][-1]["k"]) - 1)
        else:
            other.append(v["name"])
    return sorted(stuck), other, r


def run(ctx, pool):
    failures = []
    # ---- leg A/C: hunt on the reference map
    scs = rec_solver.mc_scenarios(ctx.sub_rng(3), ctx.n(1500, 30000))
    for sc in scs:
        sc["variant"] = "UNIQUAC_AsImplemented" if sc["model"] == "UNIQUAC" else "NRTL"
    stuck, other, r_hunt = hunt(ctx, scs)
    if other:
        failures.append("hunt: specification invariants violated on the reference map: %s" % sorted(set(other)))
    lasso = None
    if stuck:
        inp2 = os.path.join(ctx.work, "lasso_inputs.ndjson")
        rec_solver.export_inputs(inp2, [scs[j] for j in stuck[:3]])
        r2 = tlc.run("MC_FluxSolverF64.tla", "MC_FluxSolverF64_neg_unbounded.cfg", workers=1, env={"INPUT_FILE": inp2},
                     workdir=ctx.work, timeout=1200)
        lasso = {"inputs": len(stuck[:3]), "violated": r2.violated_names(), "states": r2.distinct}
        if "Terminates" not in r2.violated_names():
            failures.append("unbounded reference machine did not exhibit a lasso on the stuck inputs: %s %s" % (r2.violated_names(), r2.errors[:1]))
    apa = {"ran": False, "why": "thorough tier only"}
    if not ctx.quick:
        apa, afails = apalache(ctx)
        failures.extend(afails)
    # ---- leg C + B: replay the stuck inputs, and random calls, on the real solver
    jobs = []
    adv = [scs[j] for j in stuck]
    # the same cycling states asked for an accuracy no iteration can meet (precision 0.0, 1e-300): still a bounded number of evaluations
    adv += [dict(q, prec=p_) for q in adv[:6] for p_ in (0.0, 1e-300)]
    for a in range(0, len(adv), 8):
        jobs.append((adv[a:a + 8], None))
    tw = TraceWriter()
    stats = {"nontrivial": set(), "outcomes": {}}
    replay_out = []
    if jobs:
        for traces, st, res in core.parallel("harness.rec_solver", "replay_job", jobs):
            tw.traces.extend(traces)
            replay_out.extend(res)
            for k, v in st["outcomes"].items():
                stats["outcomes"][k] = stats["outcomes"].get(k, 0) + v
    n_adv = len(tw.traces)
    n = ctx.n(1600, 400000)
    per = max(150, n // 64)
    rjobs = [(ctx.seed * 100019 + 7 + j, per, 0.35, None, True) for j in range((n + per - 1) // per)]
    for traces, st in core.parallel("harness.rec_solver", "record_job", rjobs):
        tw.traces.extend(traces)
        stats["nontrivial"] |= st["nontrivial"]
        for k, v in st["outcomes"].items():
            stats["outcomes"][k] = stats["outcomes"].get(k, 0) + v
        stats["max_n"] = max(stats.get("max_n", 0), st.get("max_n", 0))
    mjobs = [(ctx.seed * 3571 + j, ctx.n(6, 120)) for j in range(16)]
    for traces in core.parallel("harness.rec_solver", "model_job", mjobs):
        tw.traces.extend(traces)
    res = core.validate_traces(None, ctx, tw, pool, "Trace_FluxSolver.tla", "Trace_FluxSolver_C10.cfg")
    hist = core.event_histogram(tw)
    gaveup = sum(1 for (o, nn) in replay_out if o == "raise")
    res["states"] += r_hunt.distinct
    res["transitions"] += max(0, r_hunt.generated - r_hunt.init_states)
    res["coverage"] = {
        "evaluations": len(tw.traces), "distinct_nontrivial": max(len(stats["nontrivial"]), n_adv),
        "rule": "TLC-found stuck inputs of the reference map replayed on the real solver + random calls over the C02 domain (50% near "
                "equilibrium); each call counted by the wrapper; non-trivial = returned with an active permeate condition and > 2 "
                "evaluations, or a replayed stuck input",
        "hunt": {"scenarios": len(scs), "stuck_on_reference_map": len(stuck), "states": r_hunt.distinct,
                 "replayed_on_code": n_adv, "code_gave_up_or_raised": gaveup, "lasso_check": lasso},
        "apalache_inductive_invariant_symbolic_bound": apa,
        "events": hist, "outcomes": stats["outcomes"], "max_evaluations_in_one_call": max([stats.get("max_n", 0)] + [nn for (_, nn) in replay_out]),
        "clauses": CLAUSES,
        "samples": [tw.traces[0][:5] + tw.traces[0][-2:], tw.traces[-1][:6]],
    }
    res["required_events"] = {k: hist.get(k, 0) for k in ("Call", "End", "Model")}
    # the iteration is observed through the public per-composition method; a solver that no longer goes through it is still decided
    # (fluxes at their own composition, CPU-time guard), with the clauses on single evaluations not exercised
    res["coverage"]["iterations_observable"] = hist.get("Eval", 0) > 0
    res["failures"] = failures
    res["trace_lookup"] = lambda v: tw.traces[v["record"]["t"]][:6] + tw.traces[v["record"]["t"]][-3:]
    return res


def classify(v, kf):
    if v["invariant"].startswith("Ref_") or v["invariant"].startswith("Step_"):
        return ("drift", None)
    return ("violation", None)
