"""C08 — all entry points answer the same question identically (incl. model choice)."""
import json
import os

from .. import core, tlc
from . import _process_common as pc
from ..trace import TraceWriter

ASSUMPTIONS = [
    "leg A: the entry points as a session over one shared uninterpreted solver, all 8 entries x 2 models x 3 modes, any call order; the positional-argument slip D2 is a named deviation that must be caught",
    "leg C: TLC writes the entry x model x mode table; the harness instantiates every row on random mixtures, membranes and feed states (mass or mole fraction input)",
    "leg B: every process step of recorded runs is compared with a standalone flux calculation at the reported state and permeances; tolerance 1e-9 (plus conditioning of 1-y for ratios)",
]
CLAUSES = {
    "Cl_LawAtOwnComposition": "model honoured: the standalone fluxes obey permeance x (feed pressure - permeate pressure by the SELECTED model at the fluxes' own composition), where the iteration contracts",
    "Cl_SameFluxes": "helper / one-point ideal curve / step 0 of each process model report the standalone fluxes (model honoured)",
    "Cl_YFromFluxes": "every reported permeate composition = J1/(J1+J2)",
    "Cl_SepFactorDef": "every separation factor = (y1/y2)/(x1/x2) in the mass basis", "Cl_PsiDef": "PSI = total flux * (separation factor - 1)",
    "Cl_StepEqualsStandalone": "every process step's fluxes = standalone calculation at that step's reported state",
}
MANIFEST = {
    "text": "TLC model-checks the session of entry points over one shared solver (agreement and model choice for every call order; defect D2 "
            "as a named deviation must be caught) and writes the entry x model x mode table; each row is executed on the real code and validated "
            "by TLC against the standalone answer; every step of recorded process runs is validated against a standalone calculation.",
    "note": "Feed states, mixtures and membranes sampled. Trusted: TLC, Java overrides, recorder.",
    "technique": "TLA+ session spec + TLC (exhaustive table, exported) + TLC validation of recorded answers and process steps",
}


def leg_a(ctx):
    return pc.LEG_A_PROCESS[:0] + [
        {"spec": "MC_EntryPoints.tla", "cfg": "MC_EntryPoints_neg_d2.cfg", "expect": "violates:SameFluxes,ModelHonoured", "workers": 2,
         "what": "defect D2 (model passed positionally into the permeance slot) as a named deviation"},
    ]


def run(ctx, pool):
    failures = []
    combo_file = os.path.join(ctx.work, "combos.ndjson")
    r = tlc.run("MC_EntryPoints.tla", "MC_EntryPoints.cfg", workers=4, env={"COMBO_FILE": combo_file}, workdir=ctx.work, coverage=True)
    if not r.ok:
        raise core.MachineryFailure("MC_EntryPoints failed: %s %s" % (r.violated_names(), r.errors[:2]))
    combos = [json.loads(x) for x in open(combo_file) if x.strip()]
    if len(combos) != 48:
        failures.append("expected 48 entry x model x mode rows from TLC, got %d" % len(combos))
    jobs = [(ctx.seed * 9973 + j, combos, ctx.n(1, 12)) for j in range(ctx.n(16, 64))]
    tw = TraceWriter()
    for traces in core.parallel("harness.rec_entry", "entry_job", jobs):
        tw.traces.extend(traces)
    res1 = core.validate_traces(None, ctx, tw, pool, "Trace_Entry.tla", "Trace_Entry.cfg", tag="entry")
    covered = set()
    for tr in tw.traces:
        for e in tr[1:]:
            if not e.get("raised"):
                covered.add((e["entry"], tr[0]["model"], tr[0]["mode"]))
    missing = [c for c in combos if (c["entry"], c["model"], c["mode"]) not in covered]
    if missing:
        failures.append("table rows without a validated execution: %s" % missing[:5])
    # every step of process runs = standalone calculation at the reported state
    tw2, stats = pc.record_processes(ctx, ctx.n(300, 8000), ctx.n(24, 600), {"with_std": True, "slow_p": 0.15})
    res2 = core.validate_traces(None, ctx, tw2, pool, "Trace_Process.tla", "Trace_Process_C08.cfg", tag="proc")
    # "the selected activity model is honoured": the standalone answer (with which all other entry points are compared above) obeys the
    # solution-diffusion law with the permeate side evaluated by the SELECTED model at the composition of the returned fluxes
    n3 = ctx.n(480, 16000)
    per3 = max(60, n3 // 32)
    tw3 = TraceWriter()
    for traces, st in core.parallel("harness.rec_solver", "record_job", [(ctx.seed * 700001 + j, per3, 0.2, None) for j in range((n3 + per3 - 1) // per3)]):
        tw3.traces.extend(traces)
    res3 = core.validate_traces(None, ctx, tw3, pool, "Trace_FluxSolver.tla", "Trace_FluxSolver_C08.cfg", tag="law")
    hist = core.event_histogram(tw)
    hist.update(core.event_histogram(tw2))
    hist.update(core.event_histogram(tw3))
    res = {"violations": res1["violations"] + res2["violations"] + res3["violations"], "states": res1["states"] + res2["states"] + res3["states"] + r.distinct,
           "transitions": res1["transitions"] + res2["transitions"] + res3["transitions"] + max(0, r.generated - r.init_states),
           "traces": res1["traces"] + res2["traces"] + res3["traces"], "failures": failures}
    res["coverage"] = {
        "evaluations": len(tw.traces) + len(tw2.traces), "distinct_nontrivial": len(covered) + len(stats["nontrivial"]),
        "rule": "each of the 48 TLC-enumerated rows (entry point x activity model x permeate mode) instantiated on random mixtures / "
                "membranes / feed states, answers compared with the standalone calculation; plus process runs (see C01) with a standalone "
                "re-evaluation at every reported step; non-trivial = distinct covered table rows + distinct returned runs",
        "table_rows": len(combos), "table_rows_covered": len(covered), "events": hist, "clauses": CLAUSES,
        "entry_session_states": r.distinct, "spec_states": r.distinct,
        "samples": [tw.traces[0][:3], tw2.traces[0][:2]],
    }
    res["required_events"] = {k: hist.get(k, 0) for k in ("Question", "Answer", "State")}
    alltr = tw.traces + tw2.traces
    res["trace_lookup"] = lambda v: [v["record"]]
    return res


def classify(v, kf):
    if v["invariant"].startswith("Ref_"):
        return ("drift", None)
    return ("violation", None)
