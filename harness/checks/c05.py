"""C05 — non-ideal models follow the fitted permeance functions they return."""
from .. import core
from . import _process_common as pc

ASSUMPTIONS = [
    "leg A: the length/index bookkeeping of the permeance series (initial entry, look-ahead, pop) is part of MC_ProcessQ; the Arrhenius re-basing identity of the fitted function is model-checked in IEEE arithmetic (MC_PVFunction)",
    "leg A (curve model): MC_NICurveQ runs the NICurve machine (Start/Step/Raise/Finish with the look-ahead point and its pop) on exact rationals with the fitted functions and fluxes free",
    "TLAPS (tla/proofs/NICurveProofs.tla, checked by tlapm on every run): for EVERY N, arithmetic, fitted functions and fluxes a returned curve of NICurve.tla has exactly N + 1 compositions, permeance pairs and flux pairs and starts at the stated composition (TLC enumerates N in 0..3)",
    "leg B: the fit returned by a model is evaluated through its public __call__ at the reported states; the public find_best_fit and Membrane.calculate_activation_energy are re-run by the harness as oracles (the optimiser itself is uninterpreted)",
    "tolerance 1e-9",
]
CLAUSES = {
    "Cl_PermFollowsFit": "P_i[k] = F_i(x[idx], T[k]) * FR_i, idx = k (k-1 isothermal), FR_i constant",
    "Cl_Step0Reproduces": "step 0 reproduces the supplied initial permeances (kg units); F(x0, T0) with factor 1 when none",
    "Cl_FitIsBestFit": "returned function = public best-fit search on that component's measurements; single curve: Arrhenius factor of the membrane's activation energy",
    "Cl_NI_PermFollowsFit": "curve model: permeances follow the best-fit function times a constant factor",
    "Cl_NI_Step0": "curve model: point 0 reproduces the initial permeances / the fit", "Cl_NI_Len": "curve model: N+1 points in all series",
    "Cl_PermUnits": "permeances reported in kg/(m2 h kPa)",
}
MANIFEST = {
    "text": "TLC model-checks the permeance-series bookkeeping of the Process machine, whole runs of the non-ideal curve machine "
            "(NICurve.tla: exact rationals, free fitted functions and fluxes; permeance = fit x constant factor, step 0, lengths, grid, "
            "outcome; four named wrong designs refuted) and the re-basing identity of the PVFunction specification; recorded non-ideal process runs and non-ideal diffusion curves of the real code are validated step by step "
            "against the fit the models return (public __call__) and against the public best-fit search / activation energy re-run as oracle.",
    "note": "The optimiser is uninterpreted (deterministic function of data and orders). Scenarios sampled; each costs two Powell fits.",
    "technique": "TLA+ spec (Process, NICurve, PVFunction) + TLC + TLC trace validation of recorded non-ideal runs with public-API oracles + TLAPS proof about NICurve.tla (tlapm)",
}

TLAPS = [("NICurveProofs.tla", ["NICurve.tla"])]


def leg_a(ctx):
    return pc.LEG_A_PROCESS + [
        {"spec": "MC_PVFunction.tla", "cfg": "MC_PVFunction.cfg", "workers": 4, "coverage": True,
         "what": "re-basing and scaling identities of the fitted function on a grid, IEEE arithmetic"},
        {"spec": "MC_PVFunction.tla", "cfg": "MC_PVFunction_neg.cfg", "expect": "violates:Inv_Rebased", "workers": 2},
        {"spec": "MC_NICurveQ.tla", "cfg": "MC_NICurveQ.cfg", "workers": 4, "coverage": True,
         "what": "whole runs of the non-ideal curve machine (NICurve.tla), exact rationals, free fitted functions and fluxes: "
                 "lengths, grid, permeance follows the fit with a constant factor, step 0, outcome by grid"},
        {"spec": "MC_NICurveQ.tla", "cfg": "MC_NICurveQ_neg_perm_lag.cfg", "expect": "violates:Inv_PermFollowsFit", "workers": 2},
        {"spec": "MC_NICurveQ.tla", "cfg": "MC_NICurveQ_neg_fr_shared.cfg", "expect": "violates:Inv_PermFollowsFit", "workers": 2},
        {"spec": "MC_NICurveQ.tla", "cfg": "MC_NICurveQ_neg_fr_drifts.cfg", "expect": "violates:Inv_PermFollowsFit", "workers": 2},
        {"spec": "MC_NICurveQ.tla", "cfg": "MC_NICurveQ_neg_no_pop.cfg", "expect": "violates:Inv_Len", "workers": 2},
        {"spec": "MC_NICurveQ.tla", "cfg": "MC_NICurveQ_reach_NeverReturned.cfg", "expect": "violates:NeverReturned", "workers": 2},
        {"spec": "MC_NICurveQ.tla", "cfg": "MC_NICurveQ_reach_NeverRaised.cfg", "expect": "violates:NeverRaised", "workers": 2},
    ]


def run(ctx, pool):
    tw, stats = pc.record_processes(ctx, 0, ctx.n(96, 1600), {"with_std": False, "with_fits": True})
    jobs = [(ctx.seed * 613 + j, ctx.n(1, 20)) for j in range(ctx.n(32, 64))]
    for traces in core.parallel("harness.rec_process", "nicurve_job", jobs):
        tw.traces.extend(traces)
    # leg C: every run shape of the curve machine's model-checking instance (N, initial permeances, direction of the grid, outcome)
    # gets at least one execution of the real curve model with that outcome
    import json
    import os
    from .. import tlc
    shape_file = os.path.join(ctx.work, "nishapes.ndjson")
    r = tlc.run("MC_NICurveQ.tla", "MC_NICurveQ.cfg", workers=4, env={"SHAPE_FILE": shape_file}, workdir=ctx.work)
    if not r.ok:
        raise core.MachineryFailure("MC_NICurveQ (shape export) failed: %s %s" % (r.violated_names(), r.errors[:2]))
    shapes = [json.loads(x) for x in open(shape_file) if x.strip()]
    for traces in core.parallel("harness.rec_process", "nicurve_shape_job", [(ctx.seed * 7621 + j, shapes[j::8]) for j in range(8)]):
        tw.traces.extend(traces)
    res = core.validate_traces(None, ctx, tw, pool, "Trace_Process.tla", "Trace_Process_C05.cfg")
    covered = set()
    for tr in tw.traces:
        st = tr[0]
        if st.get("ev") == "NIStart" and "dx" in st:
            covered.add((min(st["N"], 3), bool(st.get("P0given")), st["dx"] > 0, st["outcome"]))
    want = {(q["N"], q["hasInit"], q["up"], q["outcome"]) for q in shapes}
    res.setdefault("failures", [])
    if len(want) != 24:
        res["failures"].append("expected 24 curve shapes from TLC, got %d" % len(want))
    if len(want - covered) > 2:
        res["failures"].append("curve shapes of the specification without an execution of the real code: %s" % sorted(want - covered)[:4])
    shape_cov = {"spec_curve_shapes": len(want), "spec_curve_shapes_covered": len(want & covered),
                 "spec_curve_shapes_uncovered": [list(q) for q in sorted(want - covered)]}
    res = pc.finish(res, tw, stats, CLAUSES, "non-ideal isothermal / non-isothermal process runs (N <= 8) and non-ideal diffusion curves "
                     "(2-6 steps) on synthetic curve sets: single curve at the modelling temperature or at another one, or 2-3 "
                     "temperatures; with/without initial permeances (any unit); all permeate modes; self-cooling or programme",
                     required=("Start", "State", "NIStart", "NIPoint"))
    res["coverage"].update(shape_cov)
    return res
