"""C15 — mole-/mass-fraction conversion is a consistent bijection."""
from .. import core, rec_composition
from ..trace import TraceWriter

ASSUMPTIONS = [
    "leg A: exact rationals on finite grids; the clauses are rational identities of degree <= 1 in p",
    "leg B: seeded sampling of fractions (incl. within 1e-13 of the ends) and molar-mass ratios up to 1e3",
    "tolerance 1e-12 scaled by the conditioning max(M1/M2, M2/M1) of the conversion",
]

CLAUSES = {
    "Cl_ConversionTotal": "a conversion of a valid composition never raises",
    "Step_Conv": "recorded conversion equals the specification's formula",
    "Cl_RoundTrip": "mass->mole->mass (and reverse) returns the original value",
    "Cl_FixesEnds": "0 and 1 are fixed",
    "Cl_SumOne": "first + second = 1",
    "Cl_RatioLaw": "mole ratio = mass ratio * M2/M1",
    "Cl_Monotone": "strictly increasing",
    "Cl_RejectsOutside": "fractions outside [0,1] rejected on construction, inside accepted",
    "Cl_ForeignResult": "a conversion result converted onwards under another mixture, or after its fraction was re-assigned, obeys the ratio law of the mixture and value given now",
    "KnownEvent": "every recorded event is an action of the specification",
}


def leg_a(ctx):
    return [
        {"spec": "MC_Composition.tla", "cfg": "MC_Composition.cfg", "coverage": True, "workers": 4,
         "what": "conversion machine, exact rationals, 7 fractions x 25 mass pairs x 2 bases, chains <= 4"},
        {"spec": "MC_Composition.tla", "cfg": "MC_Composition_neg_drop_m2.cfg", "expect": "violates:Inv_RatioLaw,Inv_RoundTrip,StepIsConvRel",
         "what": "wrong design (M2 dropped) must be caught"},
        {"spec": "MC_Composition.tla", "cfg": "MC_Composition_neg_swap_m.cfg", "expect": "violates:Inv_RatioLaw,StepIsConvRel",
         "what": "wrong design (molar masses exchanged) must be caught"},
    ]


def run(ctx, pool):
    tw = TraceWriter()
    stats = {"nontrivial": set()}
    rec_composition.record(tw, ctx.rng, ctx.n(4000, 150000), stats)
    res = core.validate_traces(None, ctx, tw, pool, "Trace_Composition.tla", "Trace_Composition.cfg")
    hist = core.event_histogram(tw)
    res["coverage"] = {
        "evaluations": res["lines"], "distinct_nontrivial": len(stats["nontrivial"]),
        "rule": "conversion chains of 2-5 steps on a pair a<b of real Composition objects (built-in component pairs and "
                "synthetic molar masses with ratio up to 1e3; fractions uniform or within 1e-13..1e-3 of an end, exact "
                "ends, ulp-neighbours); non-trivial = interior pair >= 1e-9 apart, distinct by (pa, pb, M1, M2, basis); "
                "plus construction attempts inside/outside [0,1]",
        "events": hist, "clauses": CLAUSES,
        "samples": [tw.traces[0], tw.traces[len(tw.traces) // 3], tw.traces[-1]],
    }
    res["required_events"] = {k: hist.get(k, 0) for k in ("New", "Conv", "Construct")}
    res["trace_lookup"] = lambda v: tw.traces[v["record"]["t"]]
    return res


def classify(v, kf):
    return ("violation", None)

MANIFEST = {
    "text": "TLC model-checks the conversion machine of tla/Composition.tla with exact rationals (all clauses as invariants, "
            "two wrong designs must be caught), and validates conversion chains recorded from the real Composition class "
            "against the same operators in IEEE arithmetic, every clause evaluated at every recorded state.",
    "note": "Exhaustive only over the specification's grids (rational identities of degree <= 1 extend to all reals); the code is "
            "sampled (seeded). Trusted: TLC, the Java overrides F64/Q/F64Json (~250 lines), the recorder.",
    "technique": "TLA+ spec + TLC (exact rationals) + TLC trace validation of recorded conversion chains",
}
