"""Shared by the twin checks (C06, C07, C11)."""
from .. import core
from ..trace import TraceWriter


def record(ctx, plan):
    """plan: list of (rel, level, kinds, n_total, chunk)"""
    jobs = []
    for idx, (rel, level, kinds, n, chunk) in enumerate(plan):
        for j in range((n + chunk - 1) // chunk):
            jobs.append((ctx.seed * 104729 + idx * 1009 + j, chunk, rel, level, kinds))
    tw = TraceWriter()
    for traces in core.parallel("harness.rec_twins", "twin_job", jobs):
        tw.traces.extend(traces)
    return tw


def mark_probes(tw, cap=40):
    n = 0
    for tr in tw.traces:
        h = tr[0]
        if h.get("rel") == "swap" and h.get("model") == "UNIQUAC" and n < cap:
            h["probe"] = True
            n += 1


def finish(res, tw, clauses, rule, required):
    hist = core.event_histogram(tw)
    nontriv = set()
    matrix = {}
    for tr in tw.traces:
        h = tr[0]
        key = "%s/%s/%s/%s" % (h.get("rel"), h.get("level", "function"), h.get("kind", "-"), h.get("model"))
        matrix[key] = matrix.get(key, 0) + 1
        if h["ev"] == "FnTwin" or len(tr) > 3:
            if h["ev"] == "FnTwin":
                nontriv.add((h.get("rel"), h.get("mixname"), h.get("model"), h.get("mode"), str(h["J"]["a"]), str(h["gamma"]["a"])))
            else:
                nontriv.add((h.get("rel"), h.get("mixname"), h.get("model"), h.get("mode"), h.get("kind"), h["a"]["T0"], h["a"]["x0_in"], h.get("kfac")))
    res["coverage"] = {
        "evaluations": len(tw.traces), "distinct_nontrivial": len(nontriv), "rule": rule, "events": hist,
        "scenario_matrix": matrix, "clauses": clauses,
        "samples": [tw.traces[0][:3], tw.traces[-1][:2]],
    }
    res["required_events"] = {k: hist.get(k, 0) for k in required}
    res["trace_lookup"] = lambda v: tw.traces[v["record"]["t"]][:1] + [v["record"]]
    return res
