"""Shared by the checks that validate process-model traces (C01, C03, C05, C08, C18)."""
from .. import core
from ..trace import TraceWriter

LEG_A_PROCESS = [
    {"spec": "MC_ProcessQ.tla", "cfg": "MC_ProcessQ.cfg", "coverage": True, "workers": 4,
     "what": "whole runs of the Process machine, exact rationals: 36 run shapes (iso/ideal/Tperm/programme) x N in {1,2,4} x free fluxes per step"},
]


def neg(dev, invs):
    return {"spec": "MC_ProcessQ.tla", "cfg": "MC_ProcessQ_neg_%s.cfg" % dev, "expect": "violates:" + invs, "workers": 2,
            "what": "named wrong design '%s' must be caught" % dev}


def record_processes(ctx, n_ideal, n_nonideal, opts_extra=None, coarse=False, kinds=None):
    """returns (TraceWriter, stats) of process runs: ideal kinds are cheap, non-ideal ones cost a fit each"""
    tw = TraceWriter()
    stats = {"nontrivial": set(), "outcomes": {}, "kinds": {}}
    jobs = []
    per = max(10, n_ideal // 48)
    for j in range((n_ideal + per - 1) // per):
        o = {"kinds": [k for k in (kinds or ["ideal_iso", "ideal_noniso"]) if k.startswith("ideal")] or ["ideal_noniso"], "coarse": coarse}
        o.update(opts_extra or {})
        jobs.append((ctx.seed * 7919 + 11 + j, per, o))
    per2 = max(2, n_nonideal // 32)
    for j in range((n_nonideal + per2 - 1) // per2 if n_nonideal else 0):
        o = {"kinds": [k for k in (kinds or ["nonideal_iso", "nonideal_noniso"]) if k.startswith("nonideal")] or ["nonideal_noniso"],
             "coarse": coarse, "maxN": 8}
        o.update(opts_extra or {})
        jobs.append((ctx.seed * 7919 + 500011 + j, per2, o))
    for traces, st in core.parallel("harness.rec_process", "record_job", jobs):
        tw.traces.extend(traces)
        stats["nontrivial"] |= st["nontrivial"]
        for key in ("outcomes", "kinds"):
            for k, v in st[key].items():
                stats[key][k] = stats[key].get(k, 0) + v
    return tw, stats


def finish(res, tw, stats, clauses, rule, required=("Start", "State", "End")):
    hist = core.event_histogram(tw)
    full = [t for t in tw.traces if len(t) >= 3]
    res["coverage"] = {
        "evaluations": len(tw.traces), "distinct_nontrivial": len(stats["nontrivial"]),
        "rule": rule, "events": hist, "outcomes": stats["outcomes"], "scenario_matrix": stats["kinds"], "clauses": clauses,
        "samples": [t[:3] + t[-1:] for t in (full[:1] + full[-1:])] or [tw.traces[0]],
    }
    res["required_events"] = {k: hist.get(k, 0) for k in required}
    res["trace_lookup"] = lambda v: tw.traces[v["record"]["t"]][:1] + [e for e in tw.traces[v["record"]["t"]] if e.get("k") in (v["record"].get("k"), (v["record"].get("k") or 0) - 1)]
    return res


RULE = ("process runs of the real code over the scenario matrix kind x permeate mode x activity model x {self-cooling, polynomial/"
        "exponential/logarithmic programme} x input basis, on built-in (60%) and synthetic mixtures, membranes with 1-3 experiments per "
        "component, non-ideal kinds on synthetic 1-3-temperature curve sets (4-6 points) with or without initial permeances, N in 1..12, "
        "area/amount over 4 decades, step length chosen for a removal of 1e-4..4e-2 of the feed per step; non-trivial = returned run with "
        "N >= 2, distinct by (mixture, kind, mode, model, T0, x0)")
