"""C12 — membrane permeance follows the Arrhenius law of its experiments."""
from .. import core, rec_membrane
from ..trace import TraceWriter

ASSUMPTIONS = [
    "leg A: IEEE arithmetic; experiments exactly on an Arrhenius line, 1..3 of 4 temperatures in every insertion order, 4 activation energies, stated or not, 9 query temperatures",
    "leg B: membranes built from IdealExperiment objects or (built-in components) through the public IdealExperiments.from_csv loader, with the activation-energy cell left blank where none is stated; random experiment sets of 1..6 per component (>= 1 K apart, any order, interleaved), on or off an Arrhenius line, stated/unstated/mixed; no ties between nearest experiments (by construction)",
    "tolerances: 1e-9 for the Arrhenius relation, 1e-7 for relations through the regression (conditioning of nearly equal temperatures)",
]
CLAUSES = {
    "Cl_AtExperiment": "query at an experiment's temperature returns the measured value",
    "Cl_ArrheniusLaw": "nearest experiment's value times exp(-Ea/R (1/T - 1/T_exp)), Ea stated or the public calculate_activation_energy",
    "Cl_Regression": "calculate_activation_energy is the least-squares slope of ln P vs 1/T times -R (or the stated value / raise for one experiment)",
    "Cl_RecoversEa": "experiments on an Arrhenius line: regression recovers Ea",
    "Cl_OnTheLine": "experiments on an Arrhenius line: permeance independent of the nearest experiment",
    "Cl_Selectivity": "molar selectivity = mass selectivity * M2/M1; mass selectivity = P1/P2",
    "Cl_PureFlux": "pure-component flux = permeance * (Psat - permeate-side pressure); both conditions raise",
    "Ref_Permeance": "DRIFT: get_permeance equals the specification's function",
}
MANIFEST = {
    "text": "TLC model-checks tla/Membrane.tla in IEEE arithmetic over all insertion orders of experiments on an Arrhenius line (at-experiment, "
            "on-the-line whichever experiment is nearest, regression recovers Ea, raise when underdetermined; two wrong designs must be caught) "
            "and validates queries recorded from real Membrane objects against the same operators.",
    "note": "Inputs sampled (seeded); ties between nearest experiments excluded as the property allows. Trusted: TLC, Java overrides, recorder.",
    "technique": "TLA+ spec + TLC (IEEE doubles) + TLC validation of recorded membrane queries",
}


def leg_a(ctx):
    return [
        {"spec": "MC_MembraneF64.tla", "cfg": "MC_MembraneF64.cfg", "coverage": True,
         "what": "4 Ea x stated/unstated x all sequences of 1..3 of 4 temperatures; 9 queries per state"},
        {"spec": "MC_MembraneF64.tla", "cfg": "MC_MembraneF64_neg_sign.cfg", "expect": "violates:Inv_ArrheniusLaw,Inv_OnTheLine"},
        {"spec": "MC_MembraneF64.tla", "cfg": "MC_MembraneF64_neg_no_R.cfg", "expect": "violates:Inv_ArrheniusLaw,Inv_OnTheLine"},
    ]


def run(ctx, pool):
    tw = TraceWriter()
    stats = {"nontrivial": set()}
    import os
    import shutil
    scratch = os.path.join(ctx.work, "csv")
    os.makedirs(scratch, exist_ok=True)
    rec_membrane.record(tw, ctx.rng, ctx.n(500, 25000), stats, scratch=scratch)      # 24 % of the membranes go through from_csv
    shutil.rmtree(scratch, ignore_errors=True)
    res = core.validate_traces(None, ctx, tw, pool, "Trace_Membrane.tla", "Trace_Membrane.cfg")
    hist = core.event_histogram(tw)
    res["coverage"] = {
        "evaluations": res["lines"], "distinct_nontrivial": len(stats["nontrivial"]),
        "rule": "per membrane: 3-7 get_permeance queries (25% exactly at an experiment) each with a pure-component flux in one of the "
                "permeate modes (incl. the contradictory one), 2 selectivity pairs; distinct by (membrane, component, T)",
        "events": hist, "clauses": CLAUSES,
        "samples": [tw.traces[0][:3], tw.traces[-1][:3]],
    }
    res["required_events"] = {k: hist.get(k, 0) for k in ("Mem", "Query", "Flux", "Sel")}
    res["trace_lookup"] = lambda v: [tw.traces[v["record"]["t"]][0], v["record"]]
    return res


def classify(v, kf):
    if v["invariant"].startswith("Ref_"):
        return ("drift", None)
    return ("violation", None)
