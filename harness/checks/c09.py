"""C09 — flux -> permeance inversion of a diffusion curve undoes the flux calculation."""
from .. import core
from ..trace import TraceWriter

ASSUMPTIONS = [
    "leg A: exact rationals, fluxes exactly on a fixed point of the solver (feed pressures derived), vacuum / pressure / ideal-permeate modes, 3 units",
    "leg B: fluxes from the real solver at precision 1e-10 (default activity model: the curve object takes no model argument), inversion by the real DiffusionCurve; tolerance 1e-9 plus the conditioning |dpp/dy| prec / |pf - pp| measured with public calls; asserted where the solver map is contractive (L < 0.5)",
    "known finding D7: in the permeate-pressure mode the curve inverts with mole fractions while the solver subtracts p times the mass fraction; accepted only where the reported permeances equal the named deviation (molar inversion) to 1e-9",
]
CLAUSES = {
    "Cl_InvertsForward": "permeances reported back equal those the fluxes were computed for (or exactly the known deviation D7)",
    "KF_D7_InvertsForward": "probe: strict inversion in the permeate-pressure mode",
    "Cl_UnitsNormalised": "permeances always exposed in kg/(m2 h kPa)", "Cl_FluxesFromPermeances": "fluxes = permeance * feed partial pressure",
    "Cl_ReinvertsBack": "re-inverting those fluxes returns the original permeances", "Cl_YFromFluxes": "permeate composition = J1/(J1+J2)",
}
MANIFEST = {
    "text": "TLC model-checks the curve-point machine of tla/Curve.tla with exact rationals at exact fixed points of the solver (inversion is "
            "the identity in all modes when both directions use one basis; the molar inversion D7 is a named deviation that must be caught; units "
            "normalised; re-inversion) and validates curves built by the real DiffusionCurve from real solver fluxes and from permeances.",
    "note": "Inputs sampled. D7 is a known finding (not repaired: the physically right repair breaks a repository test, the suite-compatible one "
            "makes the inversion of measured curves physically wrong).",
    "technique": "TLA+ spec + TLC (exact rationals) + TLC validation of recorded curve constructions; named-deviation matching for D7",
}


def leg_a(ctx):
    return [{"spec": "MC_CurveQ.tla", "cfg": "MC_CurveQ.cfg", "coverage": True, "workers": 4,
             "what": "144 curve points: 2 constructions x 3 modes x 3 units x permeance/flux grids, exact rationals"},
            {"spec": "MC_CurveQ.tla", "cfg": "MC_CurveQ_neg_d7.cfg", "expect": "violates:Inv_InvertsForward", "workers": 2,
             "what": "inversion with mole fractions (D7) does not undo the solver"}]


def run(ctx, pool):
    jobs = [(ctx.seed * 7907 + j, ctx.n(40, 1500)) for j in range(32)]
    tw = TraceWriter()
    for traces in core.parallel("harness.rec_curve", "curve_job", jobs):
        tw.traces.extend(traces)
    n = 0
    for tr in tw.traces:
        if tr[0]["ev"] == "CurveFromFluxes" and tr[0].get("mode") == "press" and n < 40:
            tr[0]["probe"] = True
            n += 1
    res = core.validate_traces(None, ctx, tw, pool, "Trace_Curve.tla", "Trace_Curve.cfg")
    hist = core.event_histogram(tw)
    nontriv = set()
    for tr in tw.traces:
        for e in tr[1:]:
            if e["ev"] == "Point" and e["L"] < 0.5:
                nontriv.add((tr[0]["mixname"], tr[0]["mode"], e["x"], tr[0]["T"]))
    res["coverage"] = {
        "evaluations": hist.get("Point", 0) + hist.get("PPoint", 0), "distinct_nontrivial": len(nontriv),
        "rule": "curves of 2-5 points: (a) fluxes from the real solver (precision 1e-10, permeances log-uniform 1e-6..1, vacuum / permeate "
                "temperature / permeate pressure 0.05..8 kPa, mass or mole fraction compositions) inverted by DiffusionCurve; (b) curves built "
                "from permeances in kg / SI / GPU and re-inverted; non-trivial = inversion point with a contractive solver map",
        "events": hist, "clauses": CLAUSES, "samples": [tw.traces[0][:2], tw.traces[1][:2]],
    }
    res["required_events"] = {k: hist.get(k, 0) for k in ("CurveFromFluxes", "Point", "CurveFromPermeances", "PPoint")}
    res["trace_lookup"] = lambda v: tw.traces[v["record"]["t"]][:1] + [v["record"]]
    return res


def classify(v, kf):
    inv = v["invariant"]
    if inv.startswith("Ref_"):
        return ("drift", None)
    if inv == "KF_D7_InvertsForward":
        for f in kf.get("findings", []):
            if f.get("property") == "C09" and f.get("deviation") == "Curve!PPressMolar":
                return ("known", "permeate-pressure mode: DiffusionCurve inverts with mole fractions, the solver uses mass fractions [D7]")
        return ("violation", None)
    return ("violation", None)
