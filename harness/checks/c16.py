"""C16 — curve fitting is pure, deterministic and returns the best candidate it tried."""
import glob
import json
import os
import re

from .. import core, tlc
from ..trace import TraceWriter

ASSUMPTIONS = [
    "the optimiser (scipy Powell etc.) is uninterpreted: a deterministic function of the data it is given and the orders; 'best candidate' is checked against the single fits the public API lets the harness re-run on pristine copies",
    "leg A: all call histories of length <= 3 over fit / find_best_fit with orders <= 1 and with/without zero points; the shallow-copy leak D5 is a named deviation (Leaky) that must be caught",
    "leg C: TLC (-simulate) generates call histories of length 5 with orders <= 2, replayed on one real Measurements object each; losses are recomputed by TLC from the returned coefficients",
]
CLAUSES = {
    "Cl_DataUnchanged": "the caller's measurement list is unchanged after every call (also with zero points); VLE points unchanged",
    "Cl_Deterministic": "repeating a call on equal data gives identical coefficients",
    "Cl_BestOfGrid": "squared error of the best-fit result on the supplied data <= that of every single fit within the requested orders",
    "Cl_VLEBestOfMethods": "fit_vle(None) error <= every single optimisation method's",
    "Cl_FunctionForm": "returned function evaluates to alpha exp(sum a_i x^(i+1) - sum b_i x^i / T); multiplying by a constant multiplies its values",
}
MANIFEST = {
    "text": "TLC model-checks the fitting history machine tla/Fit.tla exhaustively for short histories (data unchanged, determinism, best-of-"
            "grid with an uninterpreted loss; the shallow-copy leak D5 is a named deviation that must be caught), generates longer call "
            "histories in simulation mode which are replayed on real Measurements objects, and validates the recorded calls (losses recomputed "
            "from the returned coefficients by the PVFunction specification); fit_vle is validated on the repository's VLE data sets.",
    "note": "The optimiser is opaque. Histories from TLC's simulator (seeded); data sets random (3-10 points, 1-4 temperatures) in quick, up to 40 in thorough.",
    "technique": "TLA+ history machine + TLC (exhaustive + simulation-generated histories replayed) + TLC validation of recorded fits",
}


def leg_a(ctx):
    return [{"spec": "MC_Fit.tla", "cfg": "MC_Fit.cfg", "coverage": True, "workers": 4,
             "what": "all histories of <= 3 steps over fit / best-fit (orders <= 1, zero points on/off) and in-place edits of the data by the caller"},
            {"spec": "MC_Fit.tla", "cfg": "MC_Fit_neg_leaky.cfg", "expect": "violates:DataUnchanged,BestOfGrid", "workers": 2,
             "what": "defect D5 (zero points appended to the caller's list) as a named deviation"}]


def histories(ctx, n):
    # orders up to 2 in the quick tier, up to 3 (the whole quantifier; a best-fit search over 16 candidates) in the thorough one
    r = tlc.run("MC_Fit.tla", "MC_Fit_sim.cfg" if ctx.tier == "quick" else "MC_Fit_sim3.cfg", workers=1, workdir=ctx.work,
                extra=("-simulate", "num=%d" % n, "-depth", "7", "-seed", str(ctx.seed + 17)))
    out, seen = [], set()
    for ln in r.printed:
        m = re.match(r'^<<"HISTORY", "(.*)">>$', ln)
        if m:
            s = m.group(1).replace('\\"', '"')
            if s not in seen:
                seen.add(s)
                out.append(json.loads(s))
    if not out:
        raise core.MachineryFailure("TLC simulation produced no histories: %s" % (r.errors[:2] or r.out[-500:]))
    return out, r


def run(ctx, pool):
    hs, rsim = histories(ctx, ctx.n(48, 600))
    hs = hs[:ctx.n(48, 600)]
    # every third history is continued by two more steps of the same machine: the caller edits the data in place and then repeats one
    # of the earlier calls word for word (a behaviour of Fit.tla like any other; the simulator rarely happens to produce it)
    for j, h in enumerate(hs):
        calls = [c for c in h if c["call"] != "edit"]
        if j % 3 == 0 and calls:
            rep = calls[(ctx.seed + j) % len(calls)]
            hs[j] = list(h) + [{"call": "edit", "n": 0, "m": 0, "iz": False}, dict(rep)]
    per = max(1, len(hs) // 32)
    jobs = [(ctx.seed * 2741 + j, hs[j:j + per]) for j in range(0, len(hs), per)]
    tw = TraceWriter()
    for traces in core.parallel("harness.rec_fit", "history_job", jobs):
        tw.traces.extend(traces)
    files = sorted(glob.glob(os.path.join(os.environ.get("VERIF_REPO", "/repo"), "tests", "VLE_data", "binary", "*.csv")))
    vjobs = [(f, 0) for f in files]            # every data set complete, in both tiers (the largest one, 106 points, takes ~25 s)
    vjobs += [(f, 6) for f in files[:ctx.n(3, 8)]]
    vjobs += [(f, 6, True) for f in files[:ctx.n(2, 8)]]                                 # the same data stated in mass fractions
    for traces in core.parallel("harness.rec_fit", "vle_job", vjobs):
        tw.traces.extend(traces)
    res = core.validate_traces(None, ctx, tw, pool, "Trace_Fit.tla", "Trace_Fit.cfg")
    hist = core.event_histogram(tw)
    nontriv = set()
    for tr in tw.traces:
        if tr[0]["ev"] == "FitStart":
            nontriv.add(json.dumps([[c["call"], c["n"], c["m"], c["iz"]] for c in tr[1:] if c["ev"] == "FitCall"]))
    res["states"] += rsim.generated
    res["coverage"] = {
        "evaluations": hist.get("FitCall", 0) + hist.get("VLE", 0), "distinct_nontrivial": len(nontriv) + hist.get("VLE", 0),
        "rule": "call histories of 5 calls (fit / find_best_fit, orders 0..2, zero points on/off) generated by TLC's simulator from Fit.tla, "
                "each replayed on one shared real Measurements object (3-10 points, 1-4 temperatures, either component); every best-fit call "
                "is accompanied by all single fits within its orders on pristine copies; plus fit_vle (all 9 methods vs each single one) on "
                "the repository's VLE files (first 6 points of 3 files in quick, all 8 files in thorough); distinct = distinct histories",
        "tlc_generated_histories": len(hs), "events": hist, "clauses": CLAUSES,
        "samples": [[tw.traces[0][0]["npoints"], [[c["call"], c["n"], c["m"], c["iz"]] for c in tw.traces[0][1:] if c["ev"] == "FitCall"]]],
    }
    res["required_events"] = {k: hist.get(k, 0) for k in ("FitStart", "FitCall", "VLE")}
    res["trace_lookup"] = lambda v: [{k: x for k, x in v["record"].items() if k != "cands"}]
    return res


def classify(v, kf):
    if v["invariant"].startswith("Ref_"):
        return ("drift", None)
    return ("violation", None)
