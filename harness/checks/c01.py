"""C01 — process models conserve total and per-component mass on a regular time grid."""
import json
import os

from .. import core, tlc
from . import _process_common as pc

ASSUMPTIONS = [
    'TLAPS (tla/proofs/ProcessProofs.tla, theorem LenOKHolds, checked by tlapm on every run): for EVERY N >= 1, every kind of model, every arithmetic (Add, Mul, ... uninterpreted) and every environment (fluxes, heats, permeances chosen freely per step) a returned model of Process.tla has series of exactly N entries - the look-ahead entries are popped (TLC enumerates N in {1, 2, 4})',
    "leg A: exact rationals with FREE fluxes/heats per step: the balances hold for any flux function (mixture, model, permeate mode); every clause is multilinear after cross-multiplication",
    "leg B: scenarios sampled (seeded) from the matrix of the quantifier; tolerance 1e-12 of the feed mass (re-association of the additions is accepted, a dropped term is not)",
]
CLAUSES = {
    "Cl_Init0": "series start at the stated amount, mass-fraction composition and temperature",
    "Cl_Len": "every series has exactly N entries", "Cl_TimeGrid": "time[k] = k * step length",
    "Cl_MassBal": "m[k+1] = m[k] - (J1[k]+J2[k]) A dt", "Cl_CompBal": "m[k+1] x[k+1] = m[k] x[k] - J1[k] A dt",
    "KnownEvent": "steps reported in order, none missing",
    "Ref_StepFluxes": "DRIFT: reported fluxes = the specification's FluxSolver over its reference thermodynamics at the reported state",
    "Ref_IdealPermeance": "DRIFT: ideal models' permeances = the specification's Membrane at the reported temperature",
    "Ref_Heats": "DRIFT: latent heats / heat capacities = the specification's Component formulas",
}
MANIFEST = {
    "text": "TLC model-checks whole runs of the Process state machine (Start/Step/Raise/Finish with the look-ahead state and its pop) with "
            "exact rationals and free fluxes (all balances, lengths, time grid as invariants; four named wrong designs must be caught); every "
            "step of recorded runs of the four real process models is validated by TLC against the same step relations. tlapm proves for every N, arithmetic and environment that a returned run of the same specification has series of exactly N entries starting at the stated state on the grid k x step.",
    "note": "Scenarios sampled. Trusted: TLC, Java overrides, recorder (reads only public ProcessModel fields).",
    "technique": "TLA+ state machine + TLC (exact rationals) + TLC trace validation of recorded process runs + TLAPS proofs about the same specification module (tlapm)",
}


# proof modules about the specification, checked by tlapm on every run (started by the driver next to leg A)
TLAPS = [("ProcessProofs.tla", ["Process.tla"])]


def leg_a(ctx):
    return pc.LEG_A_PROCESS + [pc.neg("mass_one_flux", "Inv_MassBal"), pc.neg("comp_next_mass", "Inv_CompBal"),
                               pc.neg("time_shift", "Inv_TimeGrid"), pc.neg("no_pop", "Inv_Len,Inv_MassBal")]


def run(ctx, pool):
    tw, stats = pc.record_processes(ctx, ctx.n(600, 20000), ctx.n(48, 1500), {"with_std": False, "with_ref": True})
    twc, stc = pc.record_processes(ctx, ctx.n(300, 10000), ctx.n(8, 300), {"with_std": False}, coarse=True)     # coarse steps: most raise
    tw.traces.extend(twc.traces)
    stats["nontrivial"] |= stc["nontrivial"]
    for k, v in stc["outcomes"].items():
        stats["outcomes"]["coarse_" + k] = v
    # leg C: every run shape of the specification's model-checking instance gets (at least) one RETURNED run of the real models
    shape_file = os.path.join(ctx.work, "shapes.ndjson")
    r = tlc.run("MC_ProcessQ.tla", "MC_ProcessQ.cfg", workers=4, env={"SHAPE_FILE": shape_file}, workdir=ctx.work)
    if not r.ok:
        raise core.MachineryFailure("MC_ProcessQ (shape export) failed: %s %s" % (r.violated_names(), r.errors[:2]))
    shapes = [json.loads(x) for x in open(shape_file) if x.strip()]
    sjobs = [(ctx.seed * 31337 + j, shapes[j::12]) for j in range(12)]
    for traces in core.parallel("harness.rec_process", "shape_job", sjobs):
        tw.traces.extend(traces)
    res = core.validate_traces(None, ctx, tw, pool, "Trace_Process.tla", "Trace_Process_C01.cfg")
    res = pc.finish(res, tw, stats, CLAUSES, pc.RULE)
    covered = set()
    for tr in tw.traces:
        if tr[-1].get("ev") == "End" and tr[-1].get("outcome") == "return":
            st = tr[0]
            nclass = 1 if st["N"] == 1 else (2 if st["N"] == 2 else 4)          # the instance's N = 4 stands for "more than two steps"
            covered.add((nclass, st["iso"], st["ideal"], st["hasTperm"], st["hasProg"]))
    want = {(q["N"], q["iso"], q["ideal"], q["hasTperm"], q["hasProg"]) for q in shapes}
    res["coverage"]["spec_run_shapes"] = len(want)
    res["coverage"]["spec_run_shapes_covered"] = len(want & covered)
    res.setdefault("failures", [])
    if len(want) != 36:
        res["failures"].append("expected 36 run shapes from TLC, got %d" % len(want))
    res["coverage"]["spec_run_shapes_uncovered"] = [list(q) for q in sorted(want - covered)]
    if len(want & covered) < 33:          # a few unlucky shapes (every attempt raised) are reported above; many mean the sweep is broken
        res["failures"].append("run shapes of the specification without a returned run of the real code: %s" % sorted(want - covered)[:4])
    return res


def classify(v, kf):
    if v["invariant"].startswith("Ref_"):
        return ("drift", None)
    return ("violation", None)
