"""C15 recorder: conversion chains on real Composition objects."""
import random

from . import gen
from .gen import pv
from .trace import F


def comp_state(c):
    return {"p": F(c.p), "type": c.type, "first": F(c.first), "second": F(c.second)}


def _mix(c1, c2, name="pair"):
    from pyvaporation.utils import NRTLParameters
    return pv.Mixture(name=name, first_component=c1, second_component=c2, nrtl_params=NRTLParameters(g12=0, g21=0, alpha12=0.3))


def record(tw, rng, n_chains, stats):
    comps = gen.builtin_components()
    for k in range(n_chains):
        u = rng.random()
        if u < 0.4:
            c1, c2 = rng.sample(comps, 2)
            mix = _mix(c1, c2)
        else:
            ratio = gen.logu(rng, 1.0, 1000.0)
            if rng.random() < 0.06:
                ratio = rng.choice([1.0, 1.0, 1.0 + gen.logu(rng, 1e-15, 1e-2)])      # equal or nearly equal molar masses: still a conversion
            m1 = gen.logu(rng, 1.0, 1000.0 / ratio) if rng.random() < 0.5 else gen.logu(rng, ratio, 1000.0)
            m2 = m1 * ratio if m1 * ratio <= 1000.0 else m1 / ratio
            if rng.random() < 0.2:
                # "every pair of positive molar masses": the law is about their RATIO, the absolute scale (g/mol, kg/mol, ...) is free
                sc_ = gen.logu(rng, 1e-4, 1.0)
                m1, m2 = m1 * sc_, m2 * sc_
            mix = gen.synthetic_mixture(rng, "S", comps=(gen.synthetic_component(rng, "S1", mass=m1),
                                                         gen.synthetic_component(rng, "S2", mass=m2)))
        if u >= 0.4 and rng.random() < 0.2:
            # the mixture is EDITED after construction (a component replaced, a molar mass corrected): conversions follow what it holds now
            if rng.random() < 0.5:
                mix.first_component.molecular_weight = float(mix.first_component.molecular_weight) * rng.uniform(0.3, 3.0)
            else:
                mix.second_component = gen.synthetic_component(rng, "S3", mass=float(mix.second_component.molecular_weight) * rng.uniform(0.3, 3.0))
        M1, M2 = float(mix.first_component.molecular_weight), float(mix.second_component.molecular_weight)
        t0 = gen.tstr(rng, rng.choice(["weight", "molar"]))
        mode = rng.random()
        if mode < 0.10:
            pa, pb, close = 0.0, gen.fraction(rng), False
        elif mode < 0.20:
            pa, pb, close = gen.fraction(rng), 1.0, False
        elif mode < 0.30:            # neighbours a few ulps apart: only weak monotonicity is asked
            pa = gen.fraction(rng)
            import math
            pb = pa
            for _ in range(rng.randrange(1, 4)):
                pb = math.nextafter(pb, 2.0)
            close = True
        else:
            pa, pb = sorted((gen.fraction(rng), gen.fraction(rng)))
            close = (pb - pa) < 1e-9 * max(M1 / M2, M2 / M1)
            if pa == pb:
                continue
        if rng.random() < 0.3:
            # the fractions as numpy scalars (what numpy.linspace / an array element gives): the same numbers, another type
            import numpy
            pa, pb = numpy.float64(pa), numpy.float64(pb)
        a = pv.Composition(p=pa, type=t0)
        b = pv.Composition(p=pb, type=t0)
        tr = tw.new()
        tr.append({"ev": "New", "M1": M1, "M2": M2, "close": close, "a": comp_state(a), "b": comp_state(b)})
        for _ in range(rng.randrange(2, 6)):
            to = gen.tstr(rng, rng.choice(["weight", "molar"]))
            try:
                a2 = a.to_molar(mix) if to == "molar" else a.to_weight(mix)
                b2 = b.to_molar(mix) if to == "molar" else b.to_weight(mix)
            except Exception as e:  # noqa: BLE001   a valid composition must convert: reported, the chain ends here
                tr.append({"ev": "ConvRaised", "to": to, "exc": type(e).__name__, "a": comp_state(a), "b": comp_state(b)})
                break
            a, b = a2, b2
            tr.append({"ev": "Conv", "to": to, "a": comp_state(a), "b": comp_state(b)})
        stats["chains"] = stats.get("chains", 0) + 1
        if not close and 1e-9 < pa < pb < 1 - 1e-9:
            stats["nontrivial"].add((round(pa, 12), round(pb, 12), M1, M2, t0))
    # a composition that is itself the RESULT of a conversion is converted back under ANOTHER mixture (a feed specification swept
    # over several mixtures), or after its fraction has been re-assigned: the law holds for the mixture and the value given NOW
    for _ in range(max(12, n_chains // 10)):
        def some_mix(tag):
            if rng.random() < 0.4:
                c1, c2 = rng.sample(comps, 2)
                return _mix(c1, c2)
            return gen.synthetic_mixture(rng, tag, comps=(gen.synthetic_component(rng, tag + "1", mass=gen.logu(rng, 1.0, 1000.0)),
                                                          gen.synthetic_component(rng, tag + "2", mass=gen.logu(rng, 1.0, 1000.0))))
        mix_a = some_mix("FA")
        same = rng.random() < 0.4
        mix_b = mix_a if same else some_mix("FB")
        t0 = gen.tstr(rng, rng.choice(["weight", "molar"]))
        other = "molar" if t0 == "weight" else "weight"
        o = pv.Composition(p=rng.uniform(0.02, 0.98), type=t0)
        pure_after_edit = rng.random() < 0.3
        if pure_after_edit:
            o = pv.Composition(p=rng.choice([0.0, 1.0]), type=t0)       # a pure composition is converted, and the RESULT is edited ...
        try:
            mid = o.to_molar(mix_a) if other == "molar" else o.to_weight(mix_a)
            edited = same or rng.random() < 0.3
            if edited:
                mid.p = rng.uniform(0.02, 0.98)
            if pure_after_edit:
                # ... then ANOTHER pure composition is converted: the ends are still fixed points
                mid.p = rng.uniform(0.02, 0.98)
                mid = pv.Composition(p=o.p, type=other)
                edited = False
            src = comp_state(mid)
            out = mid.to_molar(mix_b) if t0 == "molar" else mid.to_weight(mix_b)
            tw.add([{"ev": "Foreign", "src": src, "to": t0, "out": comp_state(out), "edited": edited, "same_mixture": same, "raised": False,
                     "M1": float(mix_b.first_component.molecular_weight), "M2": float(mix_b.second_component.molecular_weight)}])
        except Exception:  # noqa: BLE001
            z = {"p": 0.0, "type": "", "first": 0.0, "second": 0.0}
            tw.add([{"ev": "Foreign", "src": z, "to": t0, "out": z, "edited": False, "same_mixture": same, "raised": True, "M1": 1.0, "M2": 1.0}])
    # rejection table: construction outside [0,1] must raise, inside must not - also after other parts of the library have been used
    # in this process (here: a small VLE fit)
    if rng.random() < 0.5:
        try:
            import glob
            import os
            from pyvaporation.mixtures.uniquac_fitting import VLEPoints, fit_vle
            f = sorted(glob.glob(os.path.join(os.environ.get("VERIF_REPO", "/repo"), "tests", "VLE_data", "binary", "*.csv")))[0]
            d = VLEPoints.from_csv(f)
            fit_vle(VLEPoints(components=d.components, data=d.data[:3]), method="COBYLA")
            stats["vle_warmups"] = stats.get("vle_warmups", 0) + 1
        except Exception:  # noqa: BLE001
            pass
    outside = [-1e-300, -1e-12, -0.5, 1.0000000000000002, 1.5, 1e300, float("nan"), float("inf"), -float("inf")]
    inside = [0.0, 1.0, 5e-324, 0.9999999999999999, 0.5]
    for _ in range(max(4, n_chains // 20)):
        outside.append(-gen.logu(rng, 1e-15, 1e3))
        outside.append(1.0 + gen.logu(rng, 1e-15, 1e3))
        inside.append(rng.random())
    import decimal
    import fractions
    import numpy
    # the same table with the number given as another numeric type (what arrives from numpy, from a csv cell, from exact arithmetic)
    typed = []
    for p in (2, -1, 100, 0, 1):
        typed += [p, numpy.int64(p), numpy.float32(p), fractions.Fraction(p), decimal.Decimal(p)]
    typed += [numpy.float32(1.5), numpy.float16(-0.25), numpy.float64(1.0000000000000002), fractions.Fraction(3, 2), decimal.Decimal("1.5"),
              numpy.float32(0.5), fractions.Fraction(1, 2)]
    for p in outside + inside + typed:
        for ty in ("weight", "molar"):
            try:
                pv.Composition(p=p, type=ty)
                raised = False
                exc = None
            except Exception as e:  # noqa: BLE001
                raised = True
                exc = type(e).__name__
            tw.add([{"ev": "Construct", "p": F(float(p)), "type": ty, "raised": raised, "exc": exc, "ptype": type(p).__name__}])
            stats["constructs"] = stats.get("constructs", 0) + 1
