"""Seeded generators of PyVaporation objects (built-in and synthetic) shared by all recorders.
Importing this module puts /repo (the working tree under test) first on sys.path."""
import math
import os
import warnings
import random
import sys

REPO = os.environ.get("VERIF_REPO", "/repo")
sys.dont_write_bytecode = True
warnings.filterwarnings("ignore", category=RuntimeWarning)
if sys.path[0] != REPO:
    sys.path.insert(0, REPO)

import pyvaporation as pv  # noqa: E402
from pyvaporation.utils import (HeatCapacityConstants, NRTLParameters, UNIQUACConstants,  # noqa: E402
                                UNIQUACParameters, VaporPressureConstants)

assert os.path.realpath(pv.__file__).startswith(os.path.realpath(REPO)), pv.__file__

BUILTIN_MIXTURES = ["H2O_MeOH", "H2O_EtOH", "H2O_iPOH", "H2O_AceticAcid", "EtOH_ETBE", "MeOH_Toluene",
                    "MeOH_MTBE", "MeOH_DMC"]


def builtin_mixtures():
    out = []
    for n in dir(pv.Mixtures):
        v = getattr(pv.Mixtures, n)
        if isinstance(v, pv.Mixture):
            out.append(v)
    out.sort(key=lambda m: m.name)
    return out


def builtin_components():
    out = []
    for n in dir(pv.Components):
        v = getattr(pv.Components, n)
        if isinstance(v, pv.Component):
            out.append(v)
    out.sort(key=lambda c: c.name)
    return out


def logu(rng, lo, hi):
    return math.exp(rng.uniform(math.log(lo), math.log(hi)))


def synthetic_component(rng, name, frost=False, mass=None):
    """Plausible volatile liquid: Psat(350 K) between ~5 and ~300 kPa."""
    if mass is None:
        mass = round(logu(rng, 16.0, 250.0), 3)
    if frost:
        # ln P = a + b/T + c/T^2
        b = rng.uniform(-5200.0, -3000.0)
        c = rng.uniform(-250000.0, 150000.0)
        lnp350 = math.log(logu(rng, 5.0, 300.0))
        a = lnp350 - b / 350.0 - c / 350.0 ** 2
        vp = VaporPressureConstants(a=a, b=b, c=c, type="frost")
    else:
        b = rng.uniform(-2100.0, -1100.0)
        c = rng.uniform(-75.0, -15.0)
        lg350 = math.log10(logu(rng, 5.0, 300.0))
        a = lg350 - b / (350.0 + c)
        vp = VaporPressureConstants(a=a, b=b, c=c)
    hc = HeatCapacityConstants(a=rng.uniform(30.0, 200.0), b=rng.uniform(-0.5, 0.5),
                               c=rng.uniform(-1e-3, 2e-3), d=rng.uniform(-1e-6, 1e-6))
    r = rng.uniform(0.9, 5.0)
    q = r * rng.uniform(0.75, 1.3)
    qi = None if rng.random() < 0.3 else q * rng.uniform(0.3, 1.0)
    return pv.Component(name=name, molecular_weight=mass, vapour_pressure_constants=vp,
                        heat_capacity_constants=hc,
                        uniquac_constants=UNIQUACConstants(r=r, q_geometric=q, q_interaction=qi))


def synthetic_mixture(rng, name="SYN", comps=None, frost=None):
    if comps is None:
        fr = (rng.random() < 0.25) if frost is None else frost
        comps = (synthetic_component(rng, name + "_1", frost=fr),
                 synthetic_component(rng, name + "_2", frost=(rng.random() < 0.25) if frost is None else frost))
    kind = rng.randrange(4)
    # parameters that are EXACTLY zero are admissible and are where shortcuts hide: both energies zero (with or without the
    # temperature-independent terms), one of them zero, a zero non-randomness factor (as the built-in H2O/MeOH has)
    u = rng.random()
    g12, g21 = rng.uniform(-4000.0, 9000.0), rng.uniform(-4000.0, 9000.0)
    if u < 0.08:
        g12 = g21 = 0.0
    elif u < 0.12:
        g12 = 0.0
    elif u < 0.16:
        g21 = 0.0
    nrtl = NRTLParameters(
        g12=g12, g21=g21,
        alpha12=0.0 if rng.random() < 0.05 else rng.uniform(0.1, 0.6),
        alpha21=None if kind in (0, 2) else rng.uniform(0.1, 0.6),
        a12=0 if kind in (0, 1) else rng.uniform(-2.0, 3.0),
        a21=0 if kind in (0, 1) else rng.uniform(-2.0, 3.0))
    uq = UNIQUACParameters(alpha_12=rng.uniform(-150.0, 400.0), alpha_21=rng.uniform(-150.0, 400.0),
                           beta_12=rng.uniform(-3.0, 3.0), beta_21=rng.uniform(-3.0, 3.0),
                           z=rng.choice([8, 10, 10, 13]))
    return pv.Mixture(name=name, first_component=comps[0], second_component=comps[1],
                      nrtl_params=nrtl, uniquac_params=uq)


def some_mixture(rng, p_builtin=0.5, idx=None):
    bm = builtin_mixtures()
    if idx is not None and idx < len(bm):
        return bm[idx]
    if rng.random() < p_builtin:
        return rng.choice(bm)
    # distinct synthetic objects deliberately SHARE names (a tiny pool): anything keyed by a name instead of by the
    # object's parameters shows up as a wrong answer
    return synthetic_mixture(rng, rng.choice(["SYN", "SYN", "SYN_A", "SYN%d" % rng.randrange(10 ** 6)]))


def tstr(rng, s):
    """an option string as callers have it: half of the time a string object created at run time (equal to, but not the same
    object as, the literal in the library's source - e.g. read from a file), so that identity tests on strings show"""
    if rng.random() < 0.5:
        return s
    t = "".join(list(s))
    return t


GRID_T = [283.15, 298.15, 313.15, 323.15, 333.15, 353.15, 373.15]


def edge_temperature(rng, lo=273.0, hi=400.0, p_edge=0.08):
    """a temperature of the quantifier's range [lo, hi]; with probability p_edge within a fraction of a kelvin of (or at) its ends"""
    u = rng.random()
    if u < p_edge / 2:
        return rng.choice([lo, lo + rng.uniform(0.0, 0.2), 273.15])
    if u < p_edge:
        return rng.choice([hi, hi - rng.uniform(0.0, 0.2)])
    return rng.uniform(lo, hi)


def some_temperature(rng, lo=273.0, hi=400.0, p_grid=0.3):
    """a temperature in [lo, hi]; with probability p_grid from a small grid, so that distinct objects meet at EQUAL arguments"""
    if rng.random() < p_grid:
        c = [t for t in GRID_T if lo <= t <= hi]
        if c:
            return rng.choice(c)
    return rng.uniform(lo, hi)


def fraction(rng, ends=True):
    """A fraction in (0,1): mostly interior, sometimes very close to an end."""
    u = rng.random()
    if ends and u < 0.12:
        e = logu(rng, 1e-13, 1e-3)
        return e if rng.random() < 0.5 else 1.0 - e
    return rng.uniform(0.005, 0.995)


def mix_desc(m):
    """Numbers that identify a mixture in a trace (for samples/replay)."""
    return {"name": m.name, "M1": float(m.first_component.molecular_weight),
            "M2": float(m.second_component.molecular_weight)}


def as_given(rng, x, p_int=0.12, p_np=0.12):
    """the same number as a user might pass it: a float, (sometimes) rounded to a Python int, or a numpy scalar"""
    import numpy
    u = rng.random()
    if u < p_int and abs(x) >= 2:
        return int(round(x))
    if u < p_int + p_np:
        return numpy.float64(x)
    return float(x)
