"""Twin recorder (C06 swap, C07 rebase, C11 scale/trade): the same question asked twice in related forms;
the two answers are logged side by side and related by TLC (Trace_Twin.tla)."""
import copy
import math
import random

from . import gen, rec_process as rp
from .gen import pv
from .rec_activity import mix_desc, gam
from .trace import F
from pyvaporation.utils import NRTLParameters, UNIQUACParameters

KG = "kg/(m2*h*kPa)"


def own_molar(w, mix):
    """the mole-fraction statement of the mass fraction w (Composition.tla: ToMolarP), built without the library's converter"""
    m1, m2 = float(mix.first_component.molecular_weight), float(mix.second_component.molecular_weight)
    return pv.Composition(p=(w / m1) / (w / m1 + (1.0 - w) / m2), type="molar")


# ----------------------------------------------------------------------------- relabelled mixture (C06)
def swapped_mixture(m):
    n, u = m.nrtl_params, m.uniquac_params
    n2 = None
    if n is not None:
        n2 = NRTLParameters(g12=n.g21, g21=n.g12,
                            alpha12=(n.alpha21 if n.alpha21 is not None else n.alpha12),
                            alpha21=(n.alpha12 if n.alpha21 is not None else None),
                            a12=n.a21, a21=n.a12)
    u2 = None
    if u is not None:
        u2 = UNIQUACParameters(alpha_12=u.alpha_21, alpha_21=u.alpha_12, beta_12=u.beta_21, beta_21=u.beta_12, z=u.z)
    return pv.Mixture(name=m.name, first_component=m.second_component, second_component=m.first_component,
                      nrtl_params=n2, uniquac_params=u2)


def d3_probe(m, rng):
    """gammas of the code at a few points of the mixture and of its relabelled twin (for the known finding D3)"""
    m2 = swapped_mixture(m)
    pts = []
    for _ in range(3):
        T, x = rng.uniform(280.0, 390.0), rng.uniform(0.1, 0.9)
        pts.append({"T": F(T), "x": F(x), "ga": gam(T, m, x, "UNIQUAC"), "gb": gam(T, m2, 1.0 - x, "UNIQUAC")})
    return pts


def state_pair_lines(la, lb):
    keep = ("k", "time", "m", "x", "xtype", "T", "J1", "J2", "y", "P1", "P2", "Qevap", "hasQcond", "Qcond")
    out = []
    for a, b in zip(la, lb):
        out.append({"ev": "Pair", "k": a["k"], "a": {q: a[q] for q in keep}, "b": {q: b[q] for q in keep}})
    return out


# ----------------------------------------------------------------------------- process-level twins
def process_twin(rng, rel, kinds):
    sc = rp.scenario(rng, kind=rng.choice(kinds))
    sc["N"] = min(sc["N"], 6)
    decade = rel == "scaledec"
    if decade:
        # a sweep over absolute magnitudes: round feed amounts from a gram to a tonne, scaled by the largest / smallest exact factors
        rel = "scale"
        sc["m0"] = rng.choice([1e-3, 1e-2, 1.0, 12.0, 1e2, 1e3])
        sc["N"] = min(sc["N"], 3)
    if rel == "trade":
        sc.pop("want_prog", None)
    if rel == "swap":
        sc["P0"] = None
    if rng.random() < 0.25 and "dt" not in sc:
        # coarse steps on a feed that is dilute in one component: a step may take away half of what is left of that component
        sc["x0"] = rng.choice([rng.uniform(0.02, 0.1), rng.uniform(0.9, 0.98)])
        sc["removal"] = rng.uniform(0.02, 0.3)
        sc["N"] = min(sc["N"], 3)
    perv = rp.prepare(rng, sc)
    if perv is None:
        return None
    rp.initial_perms(sc)                 # the twin is handed the very same initial-permeance objects as the original run
    if sc["kind"].startswith("ideal") and rng.random() < 0.15:
        # both runs are made with a Conditions object that described another run first and was edited in place (fraction re-assigned)
        sc["edit_reuse"] = (rng.choice([2.0, 0.5, 1.0]), rng.choice([1.5, 1.0, 0.25]), rng.uniform(0.5, 1.5), rng.random() < 0.7)
    sb = dict(sc)
    k = 1.0
    kpow2 = False
    if rel in ("scale", "trade", "dtonly"):
        k = rng.choice([2.0 ** rng.randrange(-10, 11), gen.logu(rng, 1e-3, 1e3)])
        if decade:
            k = 2.0 ** rng.choice([-10, -10, -7, 7, 10, 10])
        kpow2 = (math.frexp(k)[0] == 0.5)
        if rel == "scale":
            sb["A"], sb["m0"] = sc["A"] * k, sc["m0"] * k
        elif rel == "trade":
            sb["A"], sb["dt"] = sc["A"] * k, sc["dt"] / k
        else:
            sb["dt"] = sc["dt"] * rng.uniform(0.2, 0.9)
            sb["A"], sb["m0"] = sc["A"] * rng.uniform(0.5, 2.0), sc["m0"] * rng.uniform(0.8, 3.0)
        pb = perv
    elif rel == "swap":
        sb["mix"] = swapped_mixture(sc["mix"])
        sb["x0"] = 1.0 - sc["x0"]
        pb = pv.Pervaporation(membrane=sc["membrane"], mixture=sb["mix"])
        derive = rng.random() < 0.3        # the twin object is DERIVED from the one that makes the first run (after that run)
    elif rel == "rebase":
        c = pv.Composition(p=sc["x0"], type=sc["basis"])
        other = c.to_molar(sc["mix"]) if sc["basis"] == "weight" else c.to_weight(sc["mix"])
        sb["x0"], sb["basis"] = other.p, other.type
        pb = perv
        if sc["kind"].startswith("ideal") and rng.random() < 0.3:
            # the mole-fraction side hands over a Conditions object that a model of another mixture has already used
            om = gen.some_mixture(rng, p_builtin=0.6)
            po = pv.Pervaporation(membrane=rp.make_membrane(rng, om), mixture=om)
            (sc if sc["basis"] == "molar" else sb)["preuse"] = po
    ra = rp.run_process(perv, sc)
    if rel == "swap" and derive:
        import attr
        if rng.random() < 0.5:
            pb = attr.evolve(perv, mixture=sb["mix"])
        else:
            pb = copy.copy(perv)
            pb.mixture = sb["mix"]
    rb = rp.run_process(pb, sb)
    tr = [{"ev": "TwinStart", "level": "process", "rel": rel, "kfac": F(k), "kind": sc["kind"], "mode": sc["mode"],
           "model": sc["model"], "probe": False, "N": sc["N"], "hasProg": sc["prog"] is not None, "mixname": sc["mix"].name, "kpow2": kpow2,
           "d3": d3_probe(sc["mix"], rng) if (rel == "swap" and sc["model"] == "UNIQUAC") else [],
           "a": rp.start_line(sc, ra), "b": rp.start_line(sb, rb)}]
    if ra["outcome"] == "return" and rb["outcome"] == "return":
        la = rp.state_lines(perv, sc, ra, with_std=False)
        lb = rp.state_lines(pb, sb, rb, with_std=False)
        tr.extend(state_pair_lines(la, lb))
        ma, mb = ra["model"], rb["model"]
        try:
            tr.append({"ev": "Metrics", "sf_a": [F(v) for v in ma.get_separation_factor], "sf_b": [F(v) for v in mb.get_separation_factor],
                       "sel_a": [F(v) for v in ma.get_selectivity], "sel_b": [F(v) for v in mb.get_selectivity],
                       "psi_a": [F(v) for v in ma.get_psi], "psi_b": [F(v) for v in mb.get_psi],
                       "y_a": [F(c.p) for c in ma.permeate_composition]})
        except Exception:  # noqa: BLE001
            pass
    tr.append({"ev": "TwinEnd", "a_outcome": ra["outcome"], "b_outcome": rb["outcome"]})
    return tr


# ----------------------------------------------------------------------------- function-level twins
def attempt(fn):
    try:
        return fn(), None
    except Exception as e:  # noqa: BLE001
        return None, type(e).__name__


def solver_args(rng, mix):
    T = gen.edge_temperature(rng)
    mode = rng.choice(["vac", "temp", "press"])
    return {"T": T, "mode": mode, "Tperm": rng.uniform(200.0, T - 25.0) if mode == "temp" else None,
            "pperm": rng.uniform(0.0, 3.0) if mode == "press" else None,
            "P1": gen.logu(rng, 1e-4, 1.0), "P2": gen.logu(rng, 1e-4, 1.0), "prec": rng.choice([5e-5, 1e-6, 1e-7]),
            # (now and then a feed with only a trace - parts per million and less - of one component)
            "xw": rng.uniform(0.03, 0.97) if rng.random() < 0.9 else rng.choice([gen.logu(rng, 1e-9, 1e-4), 1.0 - gen.logu(rng, 1e-9, 1e-4)])}


def function_twins(rng, rel):
    """thermodynamics, flux solver, helpers, ideal curve and its metrics: a (original) and b (relabelled / rebased)"""
    mix = gen.some_mixture(rng, p_builtin=0.6)
    model = gen.tstr(rng, rng.choice(["NRTL", "UNIQUAC"]))
    membrane = rp.make_membrane(rng, mix)
    a = solver_args(rng, mix)
    pa = pv.Pervaporation(membrane=membrane, mixture=mix)
    out = {"ev": "FnTwin", "rel": rel, "model": model, "probe": False, "mode": a["mode"], "mixname": mix.name,
           "M1": F(mix.first_component.molecular_weight), "M2": F(mix.second_component.molecular_weight), "xw": F(a["xw"]),
           "d3": d3_probe(mix, rng) if (rel == "swap" and model == "UNIQUAC") else []}
    ca = pv.Composition(p=a["xw"], type="weight")
    if rel == "swap":
        mb = swapped_mixture(mix)
        pb = pv.Pervaporation(membrane=membrane, mixture=mb)
        cb = pv.Composition(p=1.0 - a["xw"], type="weight")
        Pb = (a["P2"], a["P1"])
        cm_a, cm_b = ca.to_molar(mix), cb.to_molar(mb)
        # the same two physical states, each stated in either basis (independently): the answers are still each other's mirror image
        if rng.random() < 0.4:
            ca = own_molar(ca.p, mix)
        if rng.random() < 0.4:
            cb = own_molar(cb.p, mb)
        out["basis_ab"] = [ca.type, cb.type]
    else:
        mb, pb, Pb = mix, pa, (a["P1"], a["P2"])
        cb = ca.to_molar(mix)
        cm_a, cm_b = ca.to_molar(mix), cb
    T = a["T"]

    def both(fa, fb):
        va, ea = attempt(fa)
        vb, eb = attempt(fb)
        return va, vb, ea, eb

    # thermodynamics
    ga, gb, e1, e2 = both(lambda: gam(T, mix, cm_a.p, model), lambda: gam(T, mb, cm_b.p, model))
    ppa, ppb, e3, e4 = both(lambda: [F(v) for v in pv.get_partial_pressures(T, mix, ca, model)],
                            lambda: [F(v) for v in pv.get_partial_pressures(T, mb, cb, model)])
    # solver with explicit permeances
    kw = dict(precision=a["prec"], permeate_temperature=a["Tperm"], permeate_pressure=a["pperm"], calculation_type=model)
    # explicit permeances: the same NUMBER and unit label for a component in both runs (whatever the code does with
    # the unit, it must do it to the component the permeance belongs to)
    pu = gen.tstr(rng, rng.choice([KG, KG, "SI", "GPU"]))
    out["perm_units"] = pu
    # (sometimes only ONE component's permeance is stated - whatever the code does then, it does it to that component)
    only = rng.choice([None, None, None, 1, 2])
    out["only_explicit"] = only or 0
    pka = {"first_component_permeance": pv.Permeance(a["P1"], pu), "second_component_permeance": pv.Permeance(a["P2"], pu)}
    pkb = {"first_component_permeance": pv.Permeance(Pb[0], pu), "second_component_permeance": pv.Permeance(Pb[1], pu)}
    if only is not None:
        # component `only` of run a is component (3 - only) of a relabelled run b, and the same component of a rebased one
        ka = "first_component_permeance" if only == 1 else "second_component_permeance"
        kb = ka if rel != "swap" else ("second_component_permeance" if only == 1 else "first_component_permeance")
        pka, pkb = {ka: pka[ka]}, {kb: pkb[kb]}
    ja, jb, e5, e6 = both(
        lambda: [F(v) for v in pa.calculate_partial_fluxes(T, ca, **pka, **kw)],
        lambda: [F(v) for v in pb.calculate_partial_fluxes(T, cb, **pkb, **kw)])
    # the other direction on the SAME object: the same number read as a mole fraction (a) vs its mass-fraction equivalent (b)
    if rel == "rebase":
        ca2 = pv.Composition(p=a["xw"], type="molar")
        cb2 = ca2.to_weight(mix)
        j2a, j2b, e17, e18 = both(
            lambda: [F(v) for v in pa.calculate_partial_fluxes(T, ca2, first_component_permeance=pv.Permeance(a["P1"]),
                                                                second_component_permeance=pv.Permeance(a["P2"]), **kw)],
            lambda: [F(v) for v in pa.calculate_partial_fluxes(T, cb2, first_component_permeance=pv.Permeance(a["P1"]),
                                                                second_component_permeance=pv.Permeance(a["P2"]), **kw)])
    else:
        j2a, j2b, e17, e18 = ja, jb, e5, e6
    # solver / helpers with the membrane's permeances
    jma, jmb, e7, e8 = both(lambda: [F(v) for v in pa.calculate_partial_fluxes(T, ca, **kw)],
                            lambda: [F(v) for v in pb.calculate_partial_fluxes(T, cb, **kw)])
    hk = dict(precision=a["prec"], permeate_temperature=a["Tperm"], permeate_pressure=a["pperm"], calculation_type=model)
    ya, yb, e9, e10 = both(lambda: F(pa.calculate_permeate_composition(T, ca, **hk).p),
                           lambda: F(pb.calculate_permeate_composition(T, cb, **hk).p))
    sfa, sfb, e11, e12 = both(lambda: F(pa.calculate_separation_factor(T, ca, **hk)),
                              lambda: F(pb.calculate_separation_factor(T, cb, **hk)))
    # one ideal curve over a few compositions, and its metrics
    xs = sorted(rng.uniform(0.05, 0.95) for _ in range(3))
    comps_a = [pv.Composition(p=x, type="weight") for x in xs]
    if rel == "swap":
        comps_b = [pv.Composition(p=1.0 - x, type="weight") for x in xs]
        if rng.random() < 0.4:
            comps_a = [own_molar(c.p, mix) if rng.random() < 0.6 else c for c in comps_a]
        if rng.random() < 0.4:
            comps_b = [own_molar(c.p, mb) if rng.random() < 0.6 else c for c in comps_b]
    else:
        comps_b = [c.to_molar(mix) for c in comps_a]
        if rng.random() < 0.4:        # the basis is a property of each point, not of the curve
            comps_b = [c if (j + rng.randrange(2)) % 2 else c.to_molar(mix) for j, c in enumerate(comps_a)]

    def curve(p, comps):
        c = p.ideal_diffusion_curve(T, comps, permeate_temperature=a["Tperm"], permeate_pressure=a["pperm"],
                                    precision=a["prec"], calculation_type=model)
        return {"J": [[F(j[0]), F(j[1])] for j in c.partial_fluxes],
                "P": [[F(q[0].value), F(q[1].value)] for q in c.permeances],
                "y": [F(q.p) for q in c.permeate_composition], "sf": [F(v) for v in c.get_separation_factor],
                "sel": [F(v) for v in c.get_selectivity], "psi": [F(v) for v in c.get_psi],
                "xfeed": [F(q.p) for q in c.feed_compositions], "xtype": [q.type for q in c.feed_compositions]}
    cva, cvb, e13, e14 = both(lambda: curve(pa, comps_a), lambda: curve(pb, comps_b))
    sela, selb, e15, e16 = both(
        lambda: F(membrane.get_ideal_selectivity(T, mix.first_component, mix.second_component, "molar")),
        lambda: F(membrane.get_ideal_selectivity(T, mb.first_component, mb.second_component, "molar")))

    def pack(name, va, vb, ea, eb, zero):
        out[name] = {"ok": ea is None and eb is None, "same_exc": (ea is None) == (eb is None),
                     "a": va if va is not None else zero, "b": vb if vb is not None else zero}
    z2 = [0.0, 0.0]
    zc = {"J": [], "P": [], "y": [], "sf": [], "sel": [], "psi": [], "xfeed": [], "xtype": []}
    pack("gamma", ga, gb, e1, e2, z2)
    pack("pp", ppa, ppb, e3, e4, z2)
    pack("J", ja, jb, e5, e6, z2)
    pack("Jm", jma, jmb, e7, e8, z2)
    pack("J2", j2a, j2b, e17, e18, z2)
    pack("y", ya, yb, e9, e10, 0.0)
    pack("sf", sfa, sfb, e11, e12, 0.0)
    pack("curve", cva, cvb, e13, e14, zc)
    pack("msel", sela, selb, e15, e16, 0.0)
    return [out]


def twin_job(job):
    seed, n, rel, level, kinds = job
    rng = random.Random(seed)
    out = []
    for _ in range(n):
        if level == "process":
            t = process_twin(rng, rel, kinds)
        else:
            t = function_twins(rng, rel)
        if t is not None:
            out.append(t)
    return out


# ----------------------------------------------------------------------------- C07 extras
def nonideal_curve_twin(rng):
    """non_ideal_diffusion_curve with the initial feed composition given as mass fraction (a) or as the
    equivalent mole fraction (b), on one fixed curve set"""
    mix = gen.some_mixture(rng, p_builtin=0.6)
    membrane = rp.make_membrane(rng, mix)
    T = rng.uniform(300.0, 350.0)
    single_off = rng.random() < 0.5
    cs = rp.make_curve_set(rng, mix, t_center=None if single_off else T, n_curves=None if single_off else rng.choice([1, 2]))
    perv = pv.Pervaporation(membrane=membrane, mixture=mix)
    xw = rng.uniform(0.1, 0.6)
    ca = pv.Composition(p=xw, type="weight")
    cb = ca.to_molar(mix)
    model = gen.tstr(rng, rng.choice(["NRTL", "UNIQUAC"]))
    mode = rng.choice(["vac", "temp", "press"])
    kw = dict(diffusion_curve_set=cs, feed_temperature=T, delta_composition=rng.uniform(0.005, 0.05), number_of_steps=rng.randrange(2, 6),
              permeate_temperature=rng.uniform(200.0, T - 25.0) if mode == "temp" else None,
              permeate_pressure=rng.uniform(0.0, 3.0) if mode == "press" else None, calculation_type=model)
    if rng.random() < 0.5:
        kw["initial_permeances"] = (pv.Permeance(gen.logu(rng, 1e-3, 0.2)), pv.Permeance(gen.logu(rng, 1e-5, 1e-2)))

    def run(c):
        d = perv.non_ideal_diffusion_curve(initial_feed_composition=c, **kw)
        return {"J": [[F(j[0]), F(j[1])] for j in d.partial_fluxes], "P": [[F(q[0].value), F(q[1].value)] for q in d.permeances],
                "x": [F(q.p) for q in d.feed_compositions], "xtype": [q.type for q in d.feed_compositions]}
    va, ea = attempt(lambda: run(ca))
    vb, eb = attempt(lambda: run(cb))
    z = {"J": [], "P": [], "x": [], "xtype": []}
    return [{"ev": "CurveTwin", "rel": "rebase", "model": model, "mode": mode, "mixname": mix.name, "probe": False, "d3": [],
             "ok": ea is None and eb is None, "same_exc": (ea is None) == (eb is None),
             "P0given": "initial_permeances" in kw, "ncurves": len(cs.diffusion_curves),
             "a": va if va is not None else z, "b": vb if vb is not None else z}]


def measurements_twin(rng):
    """measurement points extracted from a curve set given in mass fractions (a) or in the equivalent mole fractions (b)"""
    from pyvaporation.optimizer import Measurements
    sc = rp.scenario(rng, kind=rng.choice(["nonideal_iso", "nonideal_noniso"]))
    mix = sc["mix"]
    st = rng.getstate()
    csa = rp.make_curve_set(rng, mix, ctype="weight", cluster_p=0.5)
    rng.setstate(st)
    csb = rp.make_curve_set(rng, mix, ctype="molar", cluster_p=0.5)
    if rng.random() < 0.5:
        # the molar set has been USED before: a non-ideal process model (or the curve model) was run on it; what is extracted
        # from it afterwards must still be the same points
        try:
            sc["curves"], sc["N"] = csb, rng.choice([1, 2])
            sc.pop("dt", None)
            perv = rp.prepare(rng, sc)
            if perv is not None:
                rp.run_process(perv, sc)
        except Exception:  # noqa: BLE001
            pass

    def ex(cs):
        m1 = Measurements.from_diffusion_curves_first(cs)
        m2 = Measurements.from_diffusion_curves_second(cs)
        return {"x1": [F(q.x) for q in m1], "t1": [F(q.t) for q in m1], "p1": [F(q.p) for q in m1],
                "x2": [F(q.x) for q in m2], "t2": [F(q.t) for q in m2], "p2": [F(q.p) for q in m2]}
    def desc(cs):
        # the supplied set as the specification sees it (Extract.tla): curves in the caller's order, points in the given order
        return [{"T": F(c.feed_temperature), "pts": [{"x": F(q.p), "xtype": q.type, "P": [F(c.permeances[j][0].value), F(c.permeances[j][1].value)]}
                                                     for j, q in enumerate(c.feed_compositions)]} for c in cs.diffusion_curves]
    seta, setb = desc(csa), desc(csb)              # described BEFORE the extraction is asked for
    return [{"ev": "MeasTwin", "rel": "rebase", "model": "NRTL", "mode": "vac", "mixname": mix.name, "probe": False, "d3": [],
             "M1": F(mix.first_component.molecular_weight), "M2": F(mix.second_component.molecular_weight),
             "seta": seta, "setb": setb, "a": ex(csa), "b": ex(csb)}]


def extras_job(job):
    seed, n, which = job
    rng = random.Random(seed)
    out = []
    for _ in range(n):
        out.append(nonideal_curve_twin(rng) if which == "curve" else measurements_twin(rng))
    return out
