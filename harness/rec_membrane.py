"""C12 recorder: real Membrane objects with random experiment sets; queries, selectivities, pure fluxes."""
import math

from . import gen
from .gen import pv
from .rec_component import vp_desc
from .trace import F

R = 8.314462
KG = "kg/(m2*h*kPa)"


def make_experiments(rng, comp, n, online, stated_mode, mixed_units):
    """n experiments at distinct temperatures (>= 1 K apart), any order."""
    temps = []
    if n >= 2 and rng.random() < 0.15:
        # all experiments of the component within a few kelvin (1-3 K apart): the regression of ln P on 1/T is still well defined
        t = rng.uniform(275.0, 395.0)
        for _ in range(n):
            temps.append(round(t, 6))
            t += rng.uniform(1.0, 3.0)
    while len(temps) < n:
        t = round(rng.uniform(273.0, 400.0), rng.choice([0, 1, 2, 6]))
        if all(abs(t - u) >= 1.0 for u in temps):
            temps.append(t)
    ea_true = rng.uniform(-60000.0, 120000.0) if rng.random() < 0.9 else 0.0
    p0, t0 = gen.logu(rng, 1e-6, 1.0), rng.uniform(273.0, 400.0)
    exps = []
    unit_all = gen.tstr(rng, rng.choice([KG, KG, "SI", "GPU"]))
    for k, t in enumerate(temps):
        if online:
            p = p0 * math.exp(-ea_true / R * (1 / t - 1 / t0))
        else:
            p = gen.logu(rng, 1e-6, 1.0)
        if stated_mode == "all":
            ea = ea_true if online else rng.choice([rng.uniform(-60000.0, 120000.0), 0.0])
        elif stated_mode == "none":
            ea = None
        else:
            ea = rng.choice([None, rng.uniform(-60000.0, 120000.0)])
        units = gen.tstr(rng, rng.choice([KG, "SI", "GPU"])) if mixed_units else unit_all
        perm = pv.Permeance(value=p, units=KG).convert(units, comp)
        e = pv.IdealExperiment(name="e%d" % k, temperature=t, component=comp, permeance=perm, activation_energy=ea)
        # what was SUPPLIED (not what the object holds after construction): the specification is told the inputs
        e._verif_supplied = {"T": F(t), "P": F(perm.convert(KG, comp).value), "hasEa": ea is not None, "Ea": F(ea or 0.0)}
        exps.append(e)
    return exps, ea_true


def exp_desc(e, comp):
    sup = getattr(e, "_verif_supplied", None)
    if sup is not None:
        return dict(sup)
    return {"T": F(e.temperature), "P": F(e.permeance.convert(KG, comp).value),
            "hasEa": e.activation_energy is not None, "Ea": F(e.activation_energy or 0.0)}


def attempt(fn):
    try:
        return {"raise": False, "v": F(fn())}
    except Exception as ex:  # noqa: BLE001
        return {"raise": True, "v": 0.0, "exc": type(ex).__name__}


def build_membrane(rng, allexp, via_csv, scratch):
    """the membrane either from the experiment objects directly or through IdealExperiments.from_csv (public loader)"""
    if not via_csv:
        return pv.Membrane(name="m", ideal_experiments=pv.IdealExperiments(experiments=allexp))
    import os
    import tempfile
    fd, path = tempfile.mkstemp(suffix=".csv", dir=scratch)
    with os.fdopen(fd, "w") as f:
        f.write("name,temperature,component,activation_energy,permeance,units,comment\n")
        attr_of = {id(getattr(pv.Components, a)): a for a in dir(pv.Components) if isinstance(getattr(pv.Components, a), pv.Component)}
        for e in allexp:
            ea = "" if e.activation_energy is None else repr(float(e.activation_energy))
            f.write("%s,%r,%s,%s,%r,%s,%s\n" % (e.name, float(e.temperature), attr_of[id(e.component)], ea, float(e.permeance.value),
                                               e.permeance.units, "verif"))
    try:
        return pv.Membrane(name="m", ideal_experiments=pv.IdealExperiments.from_csv(path))
    finally:
        os.remove(path)


def record(tw, rng, n_membranes, stats, scratch=None):
    comps = gen.builtin_components()
    for j in range(n_membranes):
        builtin = rng.random() < 0.6
        c1, c2 = rng.sample(comps, 2) if builtin else (
            gen.synthetic_component(rng, "A"), gen.synthetic_component(rng, "B"))
        online = rng.random() < 0.4
        smode = rng.choice(["all", "none", "mixed"])
        n1, n2 = rng.randrange(1, 7), rng.randrange(1, 7)
        mixed_units = rng.random() < 0.3
        e1, ea1 = make_experiments(rng, c1, n1, online, smode, mixed_units)
        e2, ea2 = make_experiments(rng, c2, n2, online, rng.choice(["all", "none", "mixed"]), mixed_units)
        allexp = e1 + e2
        rng.shuffle(allexp)                       # interleave the two components in file order
        via_csv = builtin and scratch is not None and rng.random() < 0.4      # the CSV names components, so built-in ones only
        mem = build_membrane(rng, allexp, via_csv, scratch)
        ex1 = [exp_desc(e, c1) for e in allexp if e.component is c1]
        ex2 = [exp_desc(e, c2) for e in allexp if e.component is c2]
        _membrane_trace(tw, rng, stats, j, mem, c1, c2, ex1, ex2, online, mixed_units, via_csv, ea1, ea2)
        if not via_csv and rng.random() < 0.25:
            # the SAME membrane object after the caller added an experiment (appended in place, or the list re-assigned): what it
            # answers now follows the experiments it holds now
            extra, _ = make_experiments(rng, c1, 1, False, "none" if all(not e["hasEa"] for e in ex1) else "all", mixed_units)
            if rng.random() < 0.5:
                mem.ideal_experiments.experiments.append(extra[0])
            else:
                mem.ideal_experiments.experiments = list(mem.ideal_experiments.experiments) + [extra[0]]
            held = mem.ideal_experiments.experiments
            ex1b = [exp_desc(e, c1) for e in held if e.component is c1]
            ts = sorted(e["T"] for e in ex1b)
            if all(b - a > 1e-3 for a, b in zip(ts, ts[1:])):          # distinct temperatures, as the quantifier asks
                _membrane_trace(tw, rng, stats, j, mem, c1, c2, ex1b, ex2, False, mixed_units, False, 0.0, ea2)


def _membrane_trace(tw, rng, stats, j, mem, c1, c2, ex1, ex2, online, mixed_units, via_csv, ea1, ea2):
    if True:
        tr = tw.new()
        tr.append({"ev": "Mem", "online": online, "mixed_units": mixed_units, "via_csv": via_csv, "ea1": F(ea1), "ea2": F(ea2), "M1": F(c1.molecular_weight),
                   "M2": F(c2.molecular_weight), "exps1": ex1, "exps2": ex2})
        ea_code = [attempt(lambda: mem.calculate_activation_energy(c1)), attempt(lambda: mem.calculate_activation_energy(c2))]
        for q in range(rng.randrange(3, 8)):
            which = rng.randrange(2)
            comp, exs = (c1, ex1) if which == 0 else (c2, ex2)
            u = rng.random()
            if u < 0.25:
                T = rng.choice(exs)["T"]                       # exactly at an experiment
            elif u < 0.4:
                # a hair away from an experiment (one ulp .. 1e-4 relative): not AT it, so the Arrhenius law applies in full
                T = rng.choice(exs)["T"] * (1.0 + rng.choice([-1.0, 1.0]) * gen.logu(rng, 3e-16, 1e-4))
                d = sorted(abs(e["T"] - T) for e in exs)
                if len(d) >= 2 and d[1] - d[0] <= 1e-6:
                    T = rng.uniform(260.0, 420.0)
            else:
                for _ in range(50):
                    T = rng.uniform(260.0, 420.0)
                    d = sorted(abs(e["T"] - T) for e in exs)
                    if len(d) < 2 or d[1] - d[0] > 1e-6:        # no ties between nearest experiments
                        break
            p = attempt(lambda: mem.get_permeance(T, comp).convert(KG, comp).value)      # value in kg units, whatever unit is returned
            tr.append({"ev": "Query", "which": which + 1, "T": F(T), "p": p, "ea": ea_code[which]})
            stats["nontrivial"].add((j, which, T))
            # pure-component flux in the three permeate modes
            mode = rng.choice(["vac", "temp", "press", "both"])
            tp = rng.uniform(150.0, T) if mode in ("temp", "both") else None
            pp = rng.uniform(0.0, 50.0) if mode in ("press", "both") else None
            fl = attempt(lambda: mem.get_estimated_pure_component_flux(T, comp, tp, pp))
            tr.append({"ev": "Flux", "which": which + 1, "T": F(T), "mode": mode, "p": p, "flux": fl,
                       "psatFeed": F(comp.get_vapor_pressure(T)),
                       "pPerm": F(0.0 if mode == "vac" else comp.get_vapor_pressure(tp) if mode == "temp" else pp)})
        for q in range(2):
            T = rng.uniform(260.0, 420.0)
            sm = attempt(lambda: mem.get_ideal_selectivity(T, c1, c2, "molar"))
            sw = attempt(lambda: mem.get_ideal_selectivity(T, c1, c2, "weight"))
            p1 = attempt(lambda: mem.get_permeance(T, c1).convert(KG, c1).value)
            p2 = attempt(lambda: mem.get_permeance(T, c2).convert(KG, c2).value)
            tr.append({"ev": "Sel", "T": F(T), "selMolar": sm, "selWeight": sw, "p1": p1, "p2": p2})
