"""Run TLC (with the F64/Q/F64Json overrides on the classpath) and parse its -tool output."""
import os
import re
import shutil
import subprocess
import tempfile
import time

VERIF = os.path.dirname(os.path.dirname(os.path.abspath(__file__)))
TLA_DIR = os.path.join(VERIF, "tla")
CLASSES = os.path.join(TLA_DIR, "lib", "classes")
JARS = "/opt/veriftools/tla/tla2tools.jar:/opt/veriftools/tla/CommunityModules-deps.jar"

MSG_RE = re.compile(r"@!@!@STARTMSG (\d+):(\d+) @!@!@\n(.*?)\n?@!@!@ENDMSG \1 @!@!@", re.S)


class TLCResult:
    def __init__(self):
        self.rc = None
        self.out = ""
        self.messages = []          # (code, severity, text)
        self.generated = 0
        self.distinct = 0
        self.diameter = 0
        self.violations = []        # dicts: kind, name, states (list of dict var->text)
        self.errors = []            # other error texts
        self.completed = False
        self.printed = []           # PrintT output lines
        self.coverage = {}          # action/operator name -> (count, distinct) where available
        self.wall_s = 0.0
        self.cmd = ""
        self.timed_out = False
        self.init_states = 0

    @property
    def ok(self):
        return self.completed and not self.violations and not self.errors

    def violated_names(self):
        return sorted({v["name"] for v in self.violations})

    def summary(self):
        return {
            "cmd": self.cmd, "rc": self.rc, "generated": self.generated, "distinct": self.distinct,
            "diameter": self.diameter, "violations": self.violated_names(), "errors": self.errors[:3],
            "completed": self.completed, "wall_s": round(self.wall_s, 2),
        }


def _parse_state(text):
    """'1: <Init ...>\nl = 5\n/\\ x = 3' -> {'_hdr':..., 'l': '5', ...} (single-line values only)."""
    st = {}
    lines = text.split("\n")
    if lines:
        st["_hdr"] = lines[0]
    for ln in lines[1:]:
        m = re.match(r"^\s*(?:/\\\s*)?([A-Za-z_][A-Za-z0-9_]*) = (.*)$", ln)
        if m:
            st[m.group(1)] = m.group(2).strip()
    return st


def parse(out, res):
    res.out = out
    cur = None
    for m in MSG_RE.finditer(out):
        code, sev, text = int(m.group(1)), int(m.group(2)), m.group(3)
        res.messages.append((code, sev, text))
        if code == 2110:        # Invariant X is violated.
            name = re.search(r"Invariant (\S+) is violated", text)
            cur = {"kind": "invariant", "name": name.group(1) if name else "?", "states": []}
            res.violations.append(cur)
        elif code == 2107:      # violated by the initial state
            name = re.search(r"Invariant (\S+) is violated by the initial state", text)
            cur = {"kind": "invariant", "name": name.group(1) if name else "?", "states": [_parse_state("1: <Initial>\n" + text.split("\n", 1)[-1])]}
            res.violations.append(cur)
        elif code == 2112:      # action property violated
            name = re.search(r"Action property (\S+) is violated", text)
            cur = {"kind": "action_property", "name": name.group(1) if name else "?", "states": []}
            res.violations.append(cur)
        elif code == 2116:      # temporal properties were violated
            name = re.search(r"Temporal property (\S+) was violated", text)
            cur = {"kind": "temporal", "name": name.group(1) if name else "temporal", "states": []}
            res.violations.append(cur)
        elif code == 2114:      # deadlock
            cur = {"kind": "deadlock", "name": "deadlock", "states": []}
            res.violations.append(cur)
        elif code in (2217, 2218):
            if cur is not None:
                cur["states"].append(_parse_state(text))
        elif code == 2122:      # back to state
            if cur is not None:
                cur["back_to"] = text
        elif code in (2199, 2200):
            g = re.search(r"(\d+) states generated.*?(\d+) distinct states found", text.replace(",", ""), re.S)
            if g:
                res.generated, res.distinct = int(g.group(1)), int(g.group(2))
        elif code == 2190:
            g = re.search(r"(\d+) distinct states? generated", text.replace(",", ""))
            if g:
                res.init_states = int(g.group(1))
        elif code == 2194:
            g = re.search(r"search is (\d+)", text)
            if g:
                res.diameter = int(g.group(1))
        elif code == 2193 or code == 2210:      # model checking completed / simulation finished
            res.completed = True
        elif code == 2186:
            res.finished = True
        elif sev == 1 and code not in (2110, 2107, 2112, 2116, 2114, 2121, 2217, 2218, 2122, 2264):
            res.errors.append("[%d] %s" % (code, text[:2000]))
        elif code in (2772, 2221, 2773, 2774, 2775):
            # coverage lines: "<Action line..., col... of module M>: distinct:generated"
            g = re.match(r"<([\w!]+) line .*? of module (\w+)(?: \(.*?\))?>: (\d+):(\d+)", text.replace(",", ""))
            if g:
                res.coverage[g.group(2) + "!" + g.group(1)] = (int(g.group(4)), int(g.group(3)))
    # anything outside tool messages (PrintT output goes through message 2102? keep raw lines too)
    outside = MSG_RE.sub("", out)
    for ln in outside.split("\n"):
        ln = ln.strip()
        if ln:
            res.printed.append(ln)
    return res


def run(spec, cfg=None, workdir=None, workers=1, env=None, timeout=1200, extra=(), heap="4g",
        deadlock_off=False, cont=False, coverage=False, cwd=None, dfs=False):
    """spec: module file name relative to tla/ (or absolute)."""
    res = TLCResult()
    cwd = cwd or TLA_DIR
    if workdir is None:
        workdir = os.path.join(VERIF, ".work", "tlc")
    os.makedirs(workdir, exist_ok=True)
    meta = tempfile.mkdtemp(prefix="meta_%s_" % os.path.basename(cfg or spec).replace(".", "_"), dir=workdir)
    cmd = ["java", "-XX:+UseParallelGC", "-Xmx" + heap, "-Xss16m"]
    if dfs:
        cmd.append("-Dtlc2.tool.queue.IStateQueue=StateDeque")
    cmd += ["-cp", CLASSES + ":" + JARS, "tlc2.TLC", "-tool", "-workers", str(workers),
            "-metadir", meta, "-noGenerateSpecTE"]
    if cont:
        cmd.append("-continue")
    if deadlock_off:
        cmd.append("-deadlock")
    if coverage:
        cmd += ["-coverage", "1"]
    cmd += list(extra)
    if cfg:
        cmd += ["-config", cfg]
    cmd.append(spec)
    e = dict(os.environ)
    e.pop("JAVA_TOOL_OPTIONS", None)
    if env:
        e.update({k: str(v) for k, v in env.items()})
    res.cmd = " ".join(cmd) + ("   # env " + " ".join("%s=%s" % kv for kv in (env or {}).items()) if env else "")
    t0 = time.time()
    try:
        p = subprocess.run(cmd, cwd=cwd, env=e, stdout=subprocess.PIPE, stderr=subprocess.STDOUT,
                           timeout=timeout, text=True)
        res.rc = p.returncode
        out = p.stdout
    except subprocess.TimeoutExpired as ex:
        res.rc = -9
        res.timed_out = True
        out = (ex.stdout or b"")
        if isinstance(out, bytes):
            out = out.decode("utf-8", "replace")
        res.errors.append("timeout after %ss" % timeout)
    res.wall_s = time.time() - t0
    parse(out, res)
    shutil.rmtree(meta, ignore_errors=True)
    if not res.completed and not res.violations and not res.errors:
        res.errors.append("TLC did not complete (rc=%s): %s" % (res.rc, out[-1500:]))
    return res
