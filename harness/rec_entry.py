"""C08 recorder: every public entry point asked the same question (TLC enumerates entry x model x mode)."""
import json
import random

from . import gen, rec_process as rp
from .gen import pv
from .trace import F

KG = "kg/(m2*h*kPa)"


def answer(entry, perv, mix, membrane, q, cs):
    T, c, model = q["T"], q["comp"], q["model"]
    kw = dict(precision=q["prec"], permeate_temperature=q["Tperm"], permeate_pressure=q["pperm"], calculation_type=model)
    out = {"hasJ": False, "J": [0.0, 0.0], "hasY": False, "y": 0.0, "hasSf": False, "sf": 0.0, "hasPsi": False, "psi": 0.0}
    if entry == "standalone":
        j = perv.calculate_partial_fluxes(T, c, **kw)
        out.update(hasJ=True, J=[F(j[0]), F(j[1])])
    elif entry == "permeate_composition":
        y = perv.calculate_permeate_composition(T, c, **kw)
        out.update(hasY=True, y=F(y.p), ytype=y.type)
    elif entry == "separation_factor":
        out.update(hasSf=True, sf=F(perv.calculate_separation_factor(T, c, **kw)), sf_inverted=True)
    elif entry == "ideal_curve":
        d = perv.ideal_diffusion_curve(T, [c], permeate_temperature=q["Tperm"], permeate_pressure=q["pperm"],
                                       precision=q["prec"], calculation_type=model)
        out.update(hasJ=True, J=[F(d.partial_fluxes[0][0]), F(d.partial_fluxes[0][1])], hasY=True, y=F(d.permeate_composition[0].p),
                   hasSf=True, sf=F(d.get_separation_factor[0]), hasPsi=True, psi=F(d.get_psi[0]))
    else:
        kind = entry[:-len("_step0")]
        cond = pv.Conditions(membrane_area=q["A"], initial_feed_temperature=T, initial_feed_amount=q["m0"],
                             initial_feed_composition=c, permeate_temperature=q["Tperm"], permeate_pressure=q["pperm"])
        pk = dict(conditions=cond, number_of_steps=1, delta_hours=q["dt"], precision=q["prec"], calculation_type=model)
        if kind == "ideal_iso":
            m = perv.ideal_isothermal_process(**pk)
        elif kind == "ideal_noniso":
            m = perv.ideal_non_isothermal_process(**pk)
        else:
            p0 = (membrane.get_permeance(T, mix.first_component), membrane.get_permeance(T, mix.second_component))
            pk.update(diffusion_curve_set=cs, initial_permeances=p0)
            m = perv.non_ideal_isothermal_process(**pk) if kind == "nonideal_iso" else perv.non_ideal_non_isothermal_process(**pk)
        out.update(hasJ=True, J=[F(m.partial_fluxes[0][0]), F(m.partial_fluxes[0][1])], hasY=True, y=F(m.permeate_composition[0].p),
                   hasSf=True, sf=F(m.get_separation_factor[0]), hasPsi=True, psi=F(m.get_psi[0]))
    out.setdefault("sf_inverted", False)
    return out


def entry_job(job):
    seed, combos, n = job
    rng = random.Random(seed)
    traces = []
    groups = {}
    for c in combos:
        groups.setdefault(c["mode"], {}).setdefault(c["model"], []).append(c["entry"])
    for mode, bymodel in sorted(groups.items()):
        for _ in range(n):
            mix = gen.some_mixture(rng, p_builtin=0.6)
            membrane = rp.make_membrane(rng, mix)
            # ONE Pervaporation object answers every entry point for both activity models (the quantifier says "the same
            # membrane, mixture, ..."): state kept inside the object between calls would show up as a disagreement
            perv = pv.Pervaporation(membrane=membrane, mixture=mix)
            T = gen.edge_temperature(rng)
            if rng.random() < 0.3:
                T = float(rng.choice(membrane.ideal_experiments.experiments).temperature)
            basis = gen.tstr(rng, rng.choice(["weight", "weight", "molar"]))
            c = pv.Composition(p=rng.uniform(0.05, 0.95), type=basis)
            base = {"T": T, "comp": c, "prec": rng.choice([5e-5, 1e-6, 3e-4]),
                    "Tperm": rng.uniform(200.0, T - 25.0) if mode == "temp" else None,
                    "pperm": rng.uniform(0.0, 3.0) if mode == "press" else None,
                    "A": gen.logu(rng, 1e-2, 10.0), "m0": gen.logu(rng, 1.0, 100.0), "dt": gen.logu(rng, 1e-3, 1e-1)}
            cs = rp.make_curve_set(rng, mix, n_curves=1, n_points=4, t_center=T)
            models = sorted(bymodel)
            rng.shuffle(models)
            # the standalone answers come from a FRESH object (one per model), so that they are not affected by the session
            std = {}
            for model in models:
                try:
                    fresh = pv.Pervaporation(membrane=membrane, mixture=mix)
                    std[model] = fresh.calculate_partial_fluxes(T, c, precision=base["prec"], permeate_temperature=base["Tperm"],
                                                                permeate_pressure=base["pperm"], calculation_type=model)
                except Exception:  # noqa: BLE001
                    std[model] = None
            for model in models:
                if std[model] is None:
                    continue
                q = dict(base, model=model)
                tr = [{"ev": "Question", "model": model, "mode": mode, "T": F(T), "x_in": F(c.p), "basis": basis,
                       "xw": F(c.to_weight(mix).p), "prec": F(q["prec"]), "mixname": mix.name,
                       "Jstd": [F(std[model][0]), F(std[model][1])]}]
                entries = list(bymodel[model])
                rng.shuffle(entries)
                for e in entries:
                    try:
                        a = answer(e, perv, mix, membrane, q, cs)
                        a.update(ev="Answer", entry=e, raised=False)
                    except Exception as ex:  # noqa: BLE001
                        a = {"ev": "Answer", "entry": e, "raised": True, "exc": type(ex).__name__, "hasJ": False, "J": [0.0, 0.0],
                             "hasY": False, "y": 0.0, "hasSf": False, "sf": 0.0, "hasPsi": False, "psi": 0.0, "sf_inverted": False}
                    tr.append(a)
                traces.append(tr)
    return traces
