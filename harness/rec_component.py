"""C13 recorder: call tables of the real Component methods."""
from . import gen
from .gen import pv
from .trace import F
from pyvaporation.utils import HeatCapacityConstants, VaporPressureConstants


def vp_desc(c):
    v = c.vapour_pressure_constants
    return {"type": v.type, "a": F(v.a), "b": F(v.b), "c": F(v.c)}


def hc_desc(c):
    h = c.heat_capacity_constants
    return {"a": F(h.a), "b": F(h.b), "c": F(h.c), "d": F(h.d)}


def export_components(path, rng, n_synth=12):
    """Constant sets for leg A's sweep: the code's built-in components + synthetic ones."""
    import json
    from .trace import enc
    comps = gen.builtin_components() + [wide_component(rng, "W%d" % i) for i in range(n_synth)]
    with open(path, "w") as f:
        for c in comps:
            f.write(json.dumps(enc({"name": c.name, "M": F(c.molecular_weight), "vp": vp_desc(c), "hc": hc_desc(c)})) + "\n")
    return len(comps)


def wide_component(rng, name):
    """Constants over wide ranges (C13 quantifier), not necessarily a plausible liquid."""
    if rng.random() < 0.4:
        vp = VaporPressureConstants(a=rng.uniform(8.0, 20.0), b=rng.uniform(-6000.0, -2500.0),
                                    c=rng.uniform(-300000.0, 200000.0), type="frost")
    else:
        vp = VaporPressureConstants(a=rng.uniform(4.0, 10.0), b=rng.uniform(-3000.0, -800.0), c=rng.uniform(-120.0, 20.0))
        if rng.random() < 0.15:         # handbook-style sets with a large positive third constant
            vp = VaporPressureConstants(a=vp.a, b=vp.b, c=rng.uniform(150.0, 260.0))
        elif rng.random() < 0.12:       # ... or a pole inside or above the temperature range: the set is evaluated BELOW its pole as well
            vp = VaporPressureConstants(a=vp.a - 10.0, b=vp.b, c=rng.uniform(-600.0, -200.0))
    if rng.random() < 0.12:             # "every constant set": also a positive second constant (pressure falling with temperature)
        vp = VaporPressureConstants(a=vp.a - 8.0, b=-vp.b, c=vp.c, type=vp.type)
    sc = rng.choice([1.0, 1.0, 10.0, 0.01])
    z = lambda v: 0.0 if rng.random() < 0.12 else v          # any coefficient may be exactly zero (also the constant term)
    hc = HeatCapacityConstants(a=z(rng.uniform(-300.0, 300.0) * sc), b=z(rng.uniform(-2.0, 2.0) * sc),
                               c=z(rng.uniform(-1e-2, 1e-2) * sc), d=rng.choice([0.0, rng.uniform(-1e-5, 1e-5) * sc]))
    if rng.random() < 0.1:
        vp = VaporPressureConstants(a=vp.a, b=vp.b, c=0.0, type=vp.type)      # ... and so may the third vapour-pressure constant
    return pv.Component(name=name, molecular_weight=rng.uniform(10, 300), vapour_pressure_constants=vp,
                        heat_capacity_constants=hc)


def record(tw, rng, n, stats):
    builtin = gen.builtin_components()
    for j in range(n):
        c = rng.choice(builtin) if rng.random() < 0.4 else wide_component(rng, "W")
        if c not in builtin and rng.random() < 0.25:
            # the component's constants are REPLACED or EDITED after construction (the classes are ordinary mutable records):
            # what is computed afterwards belongs to the constants the object holds now
            d = wide_component(rng, "W2")
            u = rng.random()
            if u < 0.4:
                c.vapour_pressure_constants = d.vapour_pressure_constants
                c.heat_capacity_constants = d.heat_capacity_constants
            elif u < 0.8 and d.vapour_pressure_constants.type == c.vapour_pressure_constants.type:
                c.vapour_pressure_constants.a = d.vapour_pressure_constants.a
                c.vapour_pressure_constants.b = d.vapour_pressure_constants.b
                c.vapour_pressure_constants.c = d.vapour_pressure_constants.c
                c.heat_capacity_constants.b = d.heat_capacity_constants.b
            else:
                c.molecular_weight = d.molecular_weight
        v = c.vapour_pressure_constants
        # --- vaporisation
        for _ in range(20):
            T = gen.some_temperature(rng, 200.0, 500.0)
            if v.type != "antoine" or abs(T + v.c) >= 40.0:
                break
        else:
            continue
        h = 1e-4 * T
        if rng.random() < 0.15:
            # a temperature given as a whole number of kelvin (a Python int or a numpy integer)
            import numpy
            T = int(round(T)) if rng.random() < 0.5 else numpy.int64(round(T))
            if v.type == "antoine" and abs(T + v.c) < 40.0:
                continue
        try:
            tw.add([{"ev": "Vap", "name": c.name, "vp": vp_desc(c), "T": F(T), "h": F(h),
                     "p": F(c.get_vapor_pressure(T)), "pPlus": F(c.get_vapor_pressure(T + h)),
                     "pMinus": F(c.get_vapor_pressure(T - h)), "pPlus2": F(c.get_vapor_pressure(T + 2 * h)),
                     "pMinus2": F(c.get_vapor_pressure(T - 2 * h)), "hvap": F(c.get_vaporisation_heat(T))}])
        except ArithmeticError:
            # an overflow of the library's own arithmetic (not expected 40 K away from the pole): no relation can be stated on this
            # record; the others decide
            stats["skipped"] = stats.get("skipped", 0) + 1
        # --- cooling heat
        t0, t1 = rng.uniform(150.0, 550.0), rng.uniform(150.0, 550.0)
        if rng.random() < 0.05:
            t1 = t0
        tm = t1 + (t0 - t1) * rng.uniform(-0.3, 1.3)      # the split point need not lie inside
        mid = (t0 + t1) / 2
        hh = rng.choice([0.5, 0.1, 1.0, 1e-3, 1e-4])          # also steps of a millikelvin and less (the identity is exact for any step)
        tw.add([{"ev": "Cool", "name": c.name, "hc": hc_desc(c), "t0": F(t0), "t1": F(t1), "tm": F(tm),
                 "q01": F(c.get_cooling_heat(t0, t1)), "q0m": F(c.get_cooling_heat(t0, tm)),
                 "qm1": F(c.get_cooling_heat(tm, t1)), "q10": F(c.get_cooling_heat(t1, t0)),
                 "q00": F(c.get_cooling_heat(t0, t0)), "cp0": F(c.get_specific_heat(t0)),
                 "cpmid": F(c.get_specific_heat(mid)), "cp1": F(c.get_specific_heat(t1)), "h": F(hh),
                 "qPlus": F(c.get_cooling_heat(t0 + hh, t1)), "qMinus": F(c.get_cooling_heat(t0 - hh, t1))}])
        stats["nontrivial"].add((c.name, T, t0, t1))
