"""C19 recorder: every row of the TLC-enumerated (entry, invalid class, model) table with otherwise valid random arguments."""
import random

from . import gen, rec_process as rp
from .gen import pv
from .trace import F
from pyvaporation.mixtures.mixture import calculate_activity_coefficients


def deficient_mixture(rng, mix, cls, model):
    c1, c2 = mix.first_component, mix.second_component
    nrtl, uq = mix.nrtl_params, mix.uniquac_params
    if cls == "model_params_missing":
        if model == "NRTL":
            return pv.Mixture(name=mix.name, first_component=c1, second_component=c2, nrtl_params=None, uniquac_params=uq)
        return pv.Mixture(name=mix.name, first_component=c1, second_component=c2, nrtl_params=nrtl, uniquac_params=None)
    if cls == "component_constants_missing":
        which = rng.randrange(2)
        bare = pv.Component(name=(c1 if which == 0 else c2).name, molecular_weight=(c1 if which == 0 else c2).molecular_weight,
                            vapour_pressure_constants=(c1 if which == 0 else c2).vapour_pressure_constants,
                            heat_capacity_constants=(c1 if which == 0 else c2).heat_capacity_constants, uniquac_constants=None)
        return pv.Mixture(name=mix.name, first_component=bare if which == 0 else c1, second_component=c2 if which == 0 else bare,
                          nrtl_params=nrtl, uniquac_params=uq)
    return mix


def call_entry(rng, entry, cls, model, invalid=True, warm=False):
    mix0 = gen.some_mixture(rng, p_builtin=0.6)
    mix = deficient_mixture(rng, mix0, cls, model) if invalid else mix0
    membrane = rp.make_membrane(rng, mix0)
    T = rng.uniform(290.0, 380.0)
    both = invalid and cls == "both_permeate"
    Tperm = rng.uniform(200.0, T - 25.0) if both else None
    if both and rng.random() < 0.35:
        # any stated permeate temperature counts: a liquid-nitrogen trap, a few kelvin, a fraction of a kelvin
        Tperm = rng.choice([77.0, 77.15, 4.2, 20.0, 99.0, 100.0, 150.0, gen.logu(rng, 1e-3, 200.0)])
    pperm = (rng.uniform(0.0, 3.0) if rng.random() < 0.75 else 0.0) if both else None       # 0.0 kPa is a stated pressure too
    if both and rng.random() < 0.35:
        # a stated condition is a stated condition whatever numeric type carries it (an element of numpy.arange, a float32 column, a Fraction)
        import fractions
        import numpy
        conv = rng.choice([lambda v: numpy.int64(round(v)), numpy.float32, lambda v: fractions.Fraction(v).limit_denominator(1000),
                           numpy.float64, lambda v: int(round(v))])
        if rng.random() < 0.5:
            Tperm = conv(Tperm)
        else:
            pperm = conv(pperm)
    c = pv.Composition(p=rng.uniform(0.05, 0.95), type=gen.tstr(rng, rng.choice(["weight", "molar"])))
    if invalid and cls in ("model_params_missing", "component_constants_missing") and entry in ("activity", "partial_pressures", "solver") \
            and rng.random() < 0.3:
        c = pv.Composition(p=rng.choice([0.0, 1.0]), type=gen.tstr(rng, rng.choice(["weight", "molar"])))    # a pure feed is a specification too
    perv = pv.Pervaporation(membrane=membrane, mixture=mix)
    P1, P2 = pv.Permeance(gen.logu(rng, 1e-4, 1.0)), pv.Permeance(gen.logu(rng, 1e-4, 1.0))
    def run(Tperm, pperm):
        kw = dict(permeate_temperature=Tperm, permeate_pressure=pperm, calculation_type=model)
        if entry == "solver":
            return perv.calculate_partial_fluxes(T, c, **kw)
        if entry == "solver_inner":
            return perv.get_partial_fluxes_from_permeate_composition(P1, P2, pv.Composition(rng.random(), "weight"), c, T, Tperm, pperm, model)
        if entry == "permeate_composition":
            return perv.calculate_permeate_composition(T, c, **kw)
        if entry == "separation_factor":
            return perv.calculate_separation_factor(T, c, **kw)
        if entry == "ideal_curve":
            return perv.ideal_diffusion_curve(T, [c, pv.Composition(0.5, "weight")], **kw)
        if invalid and cls == "underdetermined_ea" and entry.startswith("nonideal"):
            # one experiment per component, no activation energy; a single curve: at the feed temperature for the non-isothermal model
            # (which cools away from it), at another temperature for the isothermal and the curve model
            exps = [pv.IdealExperiment(name="e", temperature=320.0, component=cmp_, permeance=P1, activation_energy=None)
                    for cmp_ in (mix.first_component, mix.second_component)]
            if warm:
                # the SAME membrane object was complete at first (two experiments per component) and has answered off the experiments'
                # temperatures; then the second experiments are withdrawn in place: what it holds NOW is underdetermined
                more = [pv.IdealExperiment(name="e", temperature=345.0, component=cmp_, permeance=P2, activation_energy=None)
                        for cmp_ in (mix.first_component, mix.second_component)]
                mem_ea = pv.Membrane(name="v", ideal_experiments=pv.IdealExperiments(experiments=exps + more))
                for cmp_ in (mix.first_component, mix.second_component):
                    try:
                        mem_ea.calculate_activation_energy(cmp_)
                        mem_ea.get_permeance(T + 3.0, cmp_)
                    except Exception:  # noqa: BLE001
                        pass
                if rng.random() < 0.5:
                    import copy
                    mem_ea = copy.deepcopy(mem_ea)
                del mem_ea.ideal_experiments.experiments[2:]
            else:
                mem_ea = pv.Membrane(name="v", ideal_experiments=pv.IdealExperiments(experiments=exps))
            perv_ea = pv.Pervaporation(membrane=mem_ea, mixture=mix)
            tc = T if entry == "nonideal_noniso" else T + rng.choice([-15.0, 12.0])
            cs = rp.make_curve_set(rng, mix, n_curves=1, n_points=4, t_center=tc)
            if entry == "nonideal_curve":
                return perv_ea.non_ideal_diffusion_curve(cs, T, c, 0.01, 2, calculation_type=model)
            cond = pv.Conditions(membrane_area=1.0, initial_feed_temperature=T, initial_feed_amount=1e3, initial_feed_composition=c)
            pk = dict(conditions=cond, number_of_steps=2, delta_hours=1e-2, calculation_type=model, diffusion_curve_set=cs)
            return perv_ea.non_ideal_isothermal_process(**pk) if entry == "nonideal_iso" else perv_ea.non_ideal_non_isothermal_process(**pk)
        if entry == "nonideal_curve":
            cs = rp.make_curve_set(rng, mix, n_curves=1, n_points=4, t_center=T)
            return perv.non_ideal_diffusion_curve(cs, T, c, 0.01, 2, **kw)
        if entry in ("ideal_iso", "ideal_noniso", "nonideal_iso", "nonideal_noniso"):
            cond = pv.Conditions(membrane_area=1.0, initial_feed_temperature=T, initial_feed_amount=1e6, initial_feed_composition=c,
                                 permeate_temperature=Tperm, permeate_pressure=pperm)
            pk = dict(conditions=cond, number_of_steps=2, delta_hours=1e-3, calculation_type=model)
            if entry == "ideal_iso":
                return perv.ideal_isothermal_process(**pk)
            if entry == "ideal_noniso":
                return perv.ideal_non_isothermal_process(**pk)
            cs = rp.make_curve_set(rng, mix, n_curves=1, n_points=4, t_center=T)
            pk["diffusion_curve_set"] = cs
            return perv.non_ideal_isothermal_process(**pk) if entry == "nonideal_iso" else perv.non_ideal_non_isothermal_process(**pk)
        if entry == "pure_flux":
            if Tperm is not None and pperm is not None and rng.random() < 0.5:
                # both stated and even (nearly) consistent with each other - the pressure is the vapour pressure at the stated
                # temperature, to a few per cent or exactly: still two conditions where one is allowed
                pperm = float(mix0.first_component.get_vapor_pressure(Tperm)) * rng.choice([1.0, rng.uniform(0.96, 1.04), 1.0 + 1e-9])
            return membrane.get_estimated_pure_component_flux(T, mix0.first_component, Tperm, pperm)
        if entry == "curve_from_fluxes":
            return pv.DiffusionCurve(mixture=mix, membrane_name="v", feed_temperature=T, feed_compositions=[c],
                                     partial_fluxes=[(0.3, 0.1)], permeate_temperature=Tperm, permeate_pressure=pperm)
        if entry == "curve_load":
            # a curve file whose record fills BOTH permeate columns (fluxes, no permeances), read through the public loaders
            import os
            import tempfile
            import pandas
            from pathlib import Path
            d = tempfile.mkdtemp(prefix="reject_", dir=os.environ.get("VERIF_SCRATCH") or None)
            try:
                mixb = rng.choice(gen.builtin_mixtures())                  # the file names its mixture
                ok = pv.DiffusionCurve(mixture=mixb, membrane_name="v", feed_temperature=T, feed_compositions=[c, pv.Composition(0.5, "weight")],
                                       partial_fluxes=[(0.3, 0.1), (0.2, 0.15)], permeate_temperature=Tperm if Tperm is not None else None,
                                       permeate_pressure=None if Tperm is not None else pperm)
                if rng.random() < 0.5:
                    path = Path(d) / "curve.csv"
                    loader = lambda: pv.DiffusionCurveSet.load(path)
                else:
                    os.makedirs(os.path.join(d, "m", "diffusion_curve_sets"))
                    path = Path(d) / "m" / "diffusion_curve_sets" / "curve.csv"
                    loader = lambda: pv.Membrane.load(Path(d) / "m")
                ok.save(path)
                fr = pandas.read_csv(path)
                fr["permeance_1"] = float("nan")
                fr["permeance_2"] = float("nan")
                if Tperm is not None and pperm is not None:
                    fr["permeate_temperature"] = Tperm
                    fr["permeate_pressure"] = pperm
                fr.to_csv(path, index=False)
                return loader()
            finally:
                import shutil
                shutil.rmtree(d, ignore_errors=True)
        if entry == "activity":
            return calculate_activity_coefficients(T, mix, c, model)
        if entry == "partial_pressures":
            return pv.get_partial_pressures(T, mix, c, model)
        if entry == "mixture_construct":
            if invalid:
                return pv.Mixture(name="x", first_component=mix0.first_component, second_component=mix0.second_component)
            return pv.Mixture(name="x", first_component=mix0.first_component, second_component=mix0.second_component,
                              nrtl_params=mix0.nrtl_params)
        if entry == "curve_construct":
            if invalid:
                return pv.DiffusionCurve(mixture=mix, membrane_name="v", feed_temperature=T, feed_compositions=[c])
            return pv.DiffusionCurve(mixture=mix, membrane_name="v", feed_temperature=T, feed_compositions=[c], permeances=[(P1, P2)])
        if entry in ("activation_energy", "get_permeance"):
            comp = mix0.first_component
            if invalid:
                exps = [pv.IdealExperiment(name="e", temperature=320.0, component=comp, permeance=P1, activation_energy=None)]
            else:
                exps = [pv.IdealExperiment(name="e", temperature=320.0, component=comp, permeance=P1, activation_energy=None),
                        pv.IdealExperiment(name="e", temperature=340.0, component=comp, permeance=P2, activation_energy=None)]
            mem = pv.Membrane(name="v", ideal_experiments=pv.IdealExperiments(experiments=exps))
            if invalid and not warm and rng.random() < 0.5:
                # the same underdetermined penetrant read from an experiments FILE, its single row (blank activation energy) standing
                # below a row of another penetrant that states one
                from . import rec_membrane as rm
                import os
                comp, other_c = rng.sample(gen.builtin_components(), 2)
                rows = [pv.IdealExperiment(name="o", temperature=rng.uniform(300.0, 350.0), component=other_c, permeance=P2,
                                           activation_energy=rng.uniform(5000.0, 60000.0)),
                        pv.IdealExperiment(name="e", temperature=320.0, component=comp, permeance=P1, activation_energy=None)]
                if rng.random() < 0.3:
                    rows.insert(0, pv.IdealExperiment(name="o2", temperature=rng.uniform(300.0, 350.0), component=other_c, permeance=P2,
                                                      activation_energy=rng.uniform(5000.0, 60000.0)))
                mem = rm.build_membrane(rng, rows, True, os.environ.get("VERIF_SCRATCH") or None)
            if invalid and warm:
                # the same membrane object, complete at first and asked validly; the second experiment is then withdrawn in place
                mem = pv.Membrane(name="v", ideal_experiments=pv.IdealExperiments(experiments=exps + [
                    pv.IdealExperiment(name="e", temperature=340.0, component=comp, permeance=P2, activation_energy=None)]))
                try:
                    mem.calculate_activation_energy(comp)
                    mem.get_permeance(331.0, comp)
                except Exception:  # noqa: BLE001
                    pass
                if rng.random() < 0.5:
                    import copy
                    mem = copy.deepcopy(mem)
                del mem.ideal_experiments.experiments[1:]
            if entry == "activation_energy":
                return mem.calculate_activation_energy(comp)
            # away from the experiment - by ten kelvin, or by a hair (next to the measured temperature is not AT it)
            tq = rng.uniform(330.0, 335.0) if rng.random() < 0.5 else 320.0 + rng.choice([-1.0, 1.0]) * gen.logu(rng, 1e-9, 0.19)
            return mem.get_permeance(tq, comp)
        raise KeyError(entry)

    if both and warm:
        # the SAME objects answer the valid question first (temperature only), then the contradictory one: still rejected
        try:
            run(Tperm, None)
        except Exception:  # noqa: BLE001
            pass
    return run(Tperm, pperm)


def reject_job(job):
    seed, rows, k = job
    rng = random.Random(seed)
    out = []
    for r in rows:
        for j in range(k):
            for invalid in (True, False):
                try:
                    call_entry(rng, r["entry"], r["class"], r["model"], invalid, warm=(j % 2 == 1))
                    outcome, exc = "ok", None
                except Exception as e:  # noqa: BLE001
                    outcome, exc = "raise", type(e).__name__
                out.append([{"ev": "Try", "entry": r["entry"], "class": r["class"], "model": r["model"], "invalid": invalid,
                             "outcome": outcome, "exc": exc}])
    return out
