"""C02/C10 recorder: the flux solver observed through a harness-side wrapper of the public method
Pervaporation.get_partial_fluxes_from_permeate_composition (arguments + result of every call, in order)."""
import math
import signal

from . import gen
from .gen import pv
from .rec_activity import mix_desc
from .trace import F

BUDGET = 120000          # watchdog: evaluations after which a call is aborted by the harness
CPU_GUARD_S = 120.0      # second watchdog, for code that no longer goes through the observed method: CPU seconds (user time of this
                         # process, not wall-clock) after which a call is aborted; 120 000 evaluations take 8-20 CPU seconds, so on observable paths the counter fires first
KEEP_HEAD, KEEP_TAIL = 30, 30


class Abort(BaseException):
    """raised by the wrapper when the evaluation budget is exhausted (not an Exception: the code cannot swallow it)"""


class Wrapper:
    def __init__(self):
        self.orig = pv.Pervaporation.get_partial_fluxes_from_permeate_composition
        self.calls = None
        self.count = 0
        self.budget = BUDGET
        self.cpu_aborts = 0
        self.eval_aborts = 0
        self.cpu_fired = False
        self.armed = False

    def enough_aborts(self):
        """this job has already seen calls that do not terminate within the budgets: the verdict is in, stop spending minutes on more"""
        return self.cpu_aborts >= 2 or self.eval_aborts >= 3

    def install(self):
        w = self

        def wrapped(self_, *a, **kw):
            res = w.orig(self_, *a, **kw)
            if w.calls is not None:
                w.count += 1
                pc = kw.get("permeate_composition", a[2] if len(a) > 2 else None)
                rec = (w.count, float(pc.p), pc.type, float(res[0]), float(res[1]))
                if w.count <= KEEP_HEAD:
                    w.calls.append(rec)
                else:
                    w.tail.append(rec)
                    if len(w.tail) > KEEP_TAIL:
                        w.tail.pop(0)
                if w.count > w.budget:
                    w.eval_aborts += 1
                    raise Abort()
            return res
        pv.Pervaporation.get_partial_fluxes_from_permeate_composition = wrapped

    def uninstall(self):
        pv.Pervaporation.get_partial_fluxes_from_permeate_composition = self.orig

    def start(self, budget=None):
        self.calls, self.tail, self.count = [], [], 0
        self.budget = budget or BUDGET
        self.cpu_fired = False
        self.armed = True
        try:
            def on_cpu(signum, frame):
                if not self.armed:          # the call is already over: nothing to abort
                    return
                self.armed = False
                self.cpu_fired = True
                self.cpu_aborts += 1
                raise Abort()
            signal.signal(signal.SIGVTALRM, on_cpu)
            signal.setitimer(signal.ITIMER_VIRTUAL, CPU_GUARD_S * max(1.0, self.budget / BUDGET))
        except ValueError:          # not in the main thread of the process: only the evaluation counter guards
            pass

    def stop(self):
        self.armed = False
        try:
            signal.setitimer(signal.ITIMER_VIRTUAL, 0.0)
        except ValueError:
            pass
        calls, tail, n = self.calls, self.tail, self.count
        self.calls = None
        return calls, tail, n


def scenario(rng, mix=None, adversarial=False):
    if mix is None:
        mix = gen.some_mixture(rng, p_builtin=0.6)
    model = gen.tstr(rng, rng.choice(["NRTL", "UNIQUAC"]))
    mode = rng.choice(["vac", "temp", "temp", "temp", "press", "press", "press0"])
    T = gen.as_given(rng, gen.edge_temperature(rng))
    sc = {"mix": mix, "model": model, "mode": mode, "T": T, "xw": gen.fraction(rng, ends=rng.random() < 0.3),
          "ctype": gen.tstr(rng, "weight" if rng.random() < 0.8 else "molar"),
          "P1": gen.logu(rng, 1e-6, 1.0), "P2": gen.logu(rng, 1e-6, 1.0),
          # the library's own default precisions are over-represented: they are what every helper and model passes
          "prec": rng.choice([3e-4, 5e-5, gen.logu(rng, 1e-8, 1e-3), gen.logu(rng, 1e-8, 1e-3)]), "Tperm": None, "pperm": None,
          "k": rng.choice([2.0, 0.25, 3.7, gen.logu(rng, 1e-3, 1e3)])}
    if rng.random() < 0.3:                       # a highly selective membrane (the permeate is almost pure)
        hi = gen.logu(rng, 1e-3, 1.0)
        lo = hi * gen.logu(rng, 1e-6, 1e-3)
        sc["P1"], sc["P2"] = (hi, max(lo, 1e-6)) if rng.random() < 0.5 else (max(lo, 1e-6), hi)
    if mode == "temp":
        if adversarial or rng.random() < 0.35:
            sc["Tperm"] = T - gen.logu(rng, 0.05, 15.0)          # near equilibrium
        else:
            sc["Tperm"] = rng.uniform(120.0, T)
    elif mode == "press":
        sc["pperm"] = gen.as_given(rng, rng.uniform(0.0, 100.0) if rng.random() < 0.6 else gen.logu(rng, 1e-9, 100.0))
        if adversarial or rng.random() < 0.25:
            # at p* = (P1 pf1 + P2 pf2) / (P1 + P2) the pressure-mode map is an involution (a neutral 2-cycle); close to it the
            # iteration count grows like 1 / |p / p* - 1|
            try:
                pf = pv.get_partial_pressures(float(T), mix, pv.Composition(p=sc["xw"], type=sc["ctype"]), model)
                pstar = float((sc["P1"] * pf[0] + sc["P2"] * pf[1]) / (sc["P1"] + sc["P2"]))
                if math.isfinite(pstar) and pstar > 0:
                    sc["pperm"] = pstar * (1.0 + rng.choice([0.0, 1.0, -1.0]) * gen.logu(rng, 1e-12, 1e-2))
            except Exception:  # noqa: BLE001
                pass
    elif mode == "press0":
        sc["pperm"] = 0.0
    return sc


def pp_oracle(sc, y):
    """permeate-side partial pressures at permeate mass fraction y from PUBLIC functions only.
    For the pressure mode both readings of 'p times fraction' (mass / mole fraction) are logged."""
    mix, mode = sc["mix"], sc["mode"]
    if mode == "vac":
        return [0.0, 0.0], [0.0, 0.0]
    c = pv.Composition(p=y, type="weight")
    if mode == "temp":
        p = pv.get_partial_pressures(sc["Tperm"], mix, c, sc["model"])
        return [F(p[0]), F(p[1])], [F(p[0]), F(p[1])]
    cm = c.to_molar(mix)
    pp = sc["pperm"]
    return [F(pp * c.first), F(pp * c.second)], [F(pp * cm.first), F(pp * cm.second)]


def run_solver(perv, sc, P1, P2):
    comp = sc.get("feed_obj") or pv.Composition(p=sc["xw"], type=sc["ctype"])
    kw = dict(feed_temperature=sc["T"], composition=comp,
              precision=sc["prec"], first_component_permeance=pv.Permeance(value=P1),
              second_component_permeance=pv.Permeance(value=P2), calculation_type=sc["model"])
    if sc["Tperm"] is not None:
        kw["permeate_temperature"] = sc["Tperm"]
    if sc["pperm"] is not None:
        kw["permeate_pressure"] = sc["pperm"]
    return perv.calculate_partial_fluxes(**kw)


def attempt_solver(w, perv, sc, P1, P2, budget=None):
    w.start(budget)
    outcome, exc, J = "return", None, [0.0, 0.0]
    try:
        r = run_solver(perv, sc, P1, P2)
        J = [F(r[0]), F(r[1])]
    except Abort:
        outcome = "abort"
    except Exception as e:  # noqa: BLE001
        outcome, exc = "raise", type(e).__name__
    calls, tail, n = w.stop()
    return outcome, exc, J, calls, tail, n


def contraction(perv, sc, P1, P2, ystar):
    """|dg/dy| at y* from two extra calls of the public per-composition flux function (as C02 prescribes)."""
    d = 1e-7
    lo, hi = max(0.0, ystar - d), min(1.0, ystar + d)
    if hi <= lo:
        return None
    vals = []
    for yy in (lo, hi):
        try:
            j = w_orig(perv, sc, P1, P2, yy)
            vals.append(j[0] / (j[0] + j[1]))
        except Exception:  # noqa: BLE001
            return None
    L = abs(vals[1] - vals[0]) / (hi - lo)
    return L if math.isfinite(L) else None


def w_orig(perv, sc, P1, P2, y):
    return _W.orig(perv, pv.Permeance(value=P1), pv.Permeance(value=P2), pv.Composition(p=y, type="weight"),
                   pv.Composition(p=sc["xw"], type=sc["ctype"]), sc["T"], sc["Tperm"], sc["pperm"], sc["model"])


_W = None


def get_wrapper():
    global _W
    if _W is None:
        _W = Wrapper()
        _W.install()
    return _W


def record_one(tw, sc, stats, twin=True, budget=None, perv=None):
    """Run one scenario on the real solver and append its trace; returns the outcome.
    perv: the Pervaporation object to use (default: a fresh one) - the same object may be asked again, e.g. with a finer precision"""
    w = get_wrapper()
    mix = sc["mix"]
    if perv is None:
        perv = pv.Pervaporation(membrane=pv.Membrane(name="verif"), mixture=mix)
    feed = pv.Composition(p=sc["xw"], type=sc["ctype"])
    pf = pv.get_partial_pressures(sc["T"], mix, feed, sc["model"])
    tr = []
    tr.append({"ev": "Call", "mix": mix_desc(mix), "model": sc["model"], "mode": sc["mode"], "T": F(sc["T"]),
               "xw": F(sc["xw"]), "ctype": sc["ctype"], "prec": F(sc["prec"]), "Tperm": F(sc["Tperm"] or 0.0),
               "pperm": F(sc["pperm"] or 0.0), "P1": F(sc["P1"]), "P2": F(sc["P2"]), "pf": [F(pf[0]), F(pf[1])]})
    outcome, exc, J, calls, tail, n = attempt_solver(w, perv, sc, sc["P1"], sc["P2"], budget)
    logged = list(calls)
    gap = 0
    if tail:
        first_tail = tail[0][0]
        gap = first_tail - (logged[-1][0] if logged else 0) - 1
        if gap > 0:
            tr.append(None)      # placeholder, replaced below (keeps order simple)
    evs = []
    for (k, y, ytype, j1, j2) in logged:
        ppm, ppx = pp_oracle(sc, y) if ytype == "weight" else ([F("nan")] * 2, [F("nan")] * 2)
        evs.append({"ev": "Eval", "k": k, "y": F(y), "ytype": ytype, "J": [F(j1), F(j2)], "pp_mass": ppm, "pp_molar": ppx})
    if gap > 0:
        tr.pop()
        evs.append({"ev": "Gap", "skipped": gap})
    for (k, y, ytype, j1, j2) in tail:
        ppm, ppx = pp_oracle(sc, y) if ytype == "weight" else ([F("nan")] * 2, [F("nan")] * 2)
        evs.append({"ev": "Eval", "k": k, "y": F(y), "ytype": ytype, "J": [F(j1), F(j2)], "pp_mass": ppm, "pp_molar": ppx})
    tr.extend(evs)
    L = None
    ystar = (tail or calls)[-1][1] if (tail or calls) else None
    if outcome == "return" and ystar is not None:
        L = contraction(perv, sc, sc["P1"], sc["P2"], ystar)
    end = {"ev": "End", "outcome": outcome, "exc": exc, "J": J, "n": n, "hasL": L is not None, "L": F(L or 0.0),
           "budget": budget or BUDGET, "hasOwn": False, "yJ": 0.0, "ppY": [0.0, 0.0], "dppY": [0.0, 0.0], "Lown": 0.0}
    if outcome == "return" and J[0] + J[1] != 0:
        # oracle values at the permeate composition OF THE RETURNED FLUXES (needs no observation of the iteration)
        try:
            yJ = J[0] / (J[0] + J[1])
            if 0.0 <= yJ <= 1.0:
                ppm, ppx = pp_oracle(sc, yJ)
                h = 1e-6
                lo, hi = max(0.0, yJ - h), min(1.0, yJ + h)
                a_, _ = pp_oracle(sc, lo)
                b_, _ = pp_oracle(sc, hi)
                Lo = contraction(perv, sc, sc["P1"], sc["P2"], yJ)
                end.update({"hasOwn": Lo is not None, "yJ": F(yJ), "ppY": ppm, "ppYmolar": ppx,
                            "dppY": [F((b_[0] - a_[0]) / (hi - lo)), F((b_[1] - a_[1]) / (hi - lo))], "Lown": F(Lo or 0.0)})
        except Exception:  # noqa: BLE001
            pass
    end.setdefault("ppYmolar", [0.0, 0.0])
    tr.append(end)
    if twin and outcome == "return":
        k = sc["k"]
        o2, e2, J2, c2, t2, n2 = attempt_solver(w, perv, sc, k * sc["P1"], k * sc["P2"], budget)
        tr.append({"ev": "Twin", "k": F(k), "outcome": o2, "J": J2, "n": n2,
                   "ystar": F((t2 or c2)[-1][1]) if (t2 or c2) else 0.0})
    tw.add(tr)
    stats["outcomes"][outcome] = stats["outcomes"].get(outcome, 0) + 1
    stats["max_n"] = max(stats.get("max_n", 0), n)
    if outcome == "return" and sc["mode"] in ("temp", "press") and n > 2:
        stats["nontrivial"].add((mix.name, sc["model"], sc["mode"], sc["T"], sc["xw"]))
    return outcome, n


def helper_traces(sc, budget=None):
    """the same question through the two helper entry points (they take the permeances from the membrane): each must return or raise"""
    w = get_wrapper()
    mix = sc["mix"]
    T = float(sc["T"])
    exps = [pv.IdealExperiment(name="verif", temperature=T, component=c, permeance=pv.Permeance(value=P), activation_energy=0.0)
            for c, P in ((mix.first_component, sc["P1"]), (mix.second_component, sc["P2"]))]
    perv = pv.Pervaporation(membrane=pv.Membrane(name="verif", ideal_experiments=pv.IdealExperiments(experiments=exps)), mixture=mix)
    feed = pv.Composition(p=sc["xw"], type=sc["ctype"])
    out = []
    for kind in ("helper_permeate_composition", "helper_separation_factor"):
        if w.enough_aborts():
            break
        w.start(budget)
        outcome, exc = "return", None
        try:
            kw = dict(feed_temperature=T, composition=feed, precision=sc["prec"], permeate_temperature=sc["Tperm"],
                      permeate_pressure=sc["pperm"], calculation_type=sc["model"])
            if kind == "helper_permeate_composition":
                perv.calculate_permeate_composition(**kw)
            else:
                perv.calculate_separation_factor(**kw)
        except Abort:
            outcome = "abort"
        except Exception as e:  # noqa: BLE001
            outcome, exc = "raise", type(e).__name__
        calls, tail, cnt = w.stop()
        out.append([{"ev": "Model", "kind": kind, "model": sc["model"], "N": 1, "outcome": outcome, "exc": exc, "n": cnt,
                     "budget": budget or BUDGET, "mixname": mix.name}])
    return out


def record_job(job):
    """multiprocessing entry: job = (seed, n, adversarial_fraction, budget) -> (traces, stats)"""
    import random
    from .trace import TraceWriter
    seed, n, adv, budget = job[:4]
    opts_helpers = len(job) > 4 and job[4]
    rng = random.Random(seed)
    tw = TraceWriter()
    stats = {"nontrivial": set(), "outcomes": {}}
    for _ in range(n):
        if get_wrapper().enough_aborts():
            break            # two calls of this job already ran into the CPU-time guard: the verdict is in, do not spend minutes on more
        sc = scenario(rng, adversarial=rng.random() < adv)
        if rng.random() < 0.25:
            # the SAME object solves the SAME state twice: first coarsely, then to a finer precision (each answer must meet its own)
            perv = pv.Pervaporation(membrane=pv.Membrane(name="verif"), mixture=sc["mix"])
            fine = dict(sc)
            sc["prec"] = max(sc["prec"], rng.choice([1e-3, 3e-4, 1e-4]))
            fine["prec"] = min(fine["prec"], sc["prec"] * rng.choice([1e-2, 1e-4, 1e-5]))
            record_one(tw, sc, stats, budget=budget, perv=perv)
            record_one(tw, fine, stats, budget=budget, perv=perv)
            continue
        if rng.random() < 0.15:
            # ONE Pervaporation object and ONE caller-owned composition object at one feed temperature: asked first with the other
            # activity model, or at another fraction that is then re-assigned in place; the answer belongs to the question asked now
            perv = pv.Pervaporation(membrane=pv.Membrane(name="verif"), mixture=sc["mix"])
            sc["feed_obj"] = pv.Composition(p=sc["xw"], type=sc["ctype"])
            pre = dict(sc)
            if rng.random() < 0.5:
                pre["model"] = "UNIQUAC" if sc["model"] == "NRTL" else "NRTL"
            else:
                sc["feed_obj"].p = min(0.98, max(0.02, sc["xw"] * rng.uniform(0.3, 1.7)))
            attempt_solver(get_wrapper(), perv, pre, sc["P1"], sc["P2"], budget)       # (under the watchdogs, like every call)
            sc["feed_obj"].p = sc["xw"]
            record_one(tw, sc, stats, budget=budget, perv=perv)
            continue
        outcome, _ = record_one(tw, sc, stats, budget=budget)
        if opts_helpers and (outcome != "return" or rng.random() < 0.1):
            for t in helper_traces(sc, budget):
                tw.add(t)
    return tw.traces, stats


# ----------------------------------------------------------------------------- leg A/C scenario exchange with TLC
def sc_export(sc):
    """a scenario as TLC reads it (variant: the map the code iterates; UNIQUAC is the variant as implemented
    unless the code's gamma_2 has been repaired -- decided by probing the code once, see detect_uniquac_variant)"""
    return {"mix": mix_desc(sc["mix"]), "model": sc["model"], "variant": sc.get("variant", sc["model"]), "mode": "press" if sc["mode"] == "press0" else sc["mode"],
            "T": F(sc["T"]), "xw": F(sc["xw"]), "ctype": sc["ctype"], "prec": F(sc["prec"]),
            "Tperm": F(sc["Tperm"] or 0.0), "pperm": F(sc["pperm"] or 0.0), "P1": F(sc["P1"]), "P2": F(sc["P2"])}


def export_inputs(path, scs):
    import json
    from .trace import enc
    with open(path, "w") as f:
        for sc in scs:
            f.write(json.dumps(enc(sc_export(sc))) + "\n")


def mc_scenarios(rng, n):
    """near-equilibrium permeate-temperature scenarios (plus a few of the other modes) on the built-in mixtures"""
    out = []
    bm = gen.builtin_mixtures()
    for j in range(n):
        mix = bm[j % len(bm)] if rng.random() < 0.8 else gen.synthetic_mixture(rng, "SYN%d" % j)
        sc = scenario(rng, mix=mix, adversarial=True)
        if rng.random() < 0.85:
            sc["mode"], sc["pperm"] = "temp", None
            sc["Tperm"] = sc["T"] - gen.logu(rng, 0.05, 15.0)
        sc["xw"] = rng.uniform(0.02, 0.98)
        sc["ctype"] = "weight"
        sc["prec"] = gen.logu(rng, 1e-7, 1e-3)
        out.append(sc)
    return out


def replay_job(job):
    """leg C: scenarios chosen by TLC (or drawn) -> traces of the real solver.  job = (list of scenario dicts, budget)"""
    from .trace import TraceWriter
    scs, budget = job
    tw = TraceWriter()
    stats = {"nontrivial": set(), "outcomes": {}}
    res = []
    for sc in scs:
        if get_wrapper().enough_aborts():
            break
        res.append(record_one(tw, sc, stats, twin=False, budget=budget))
        for t in helper_traces(sc, budget):              # the stuck inputs also through the helper entry points
            tw.add(t)
    return tw.traces, stats, res


# ----------------------------------------------------------------------------- whole models under the counter (C10, 2nd sentence)
def model_job(job):
    """process / curve models with near-equilibrium permeate temperatures, counted by the wrapper: each must return or raise"""
    import random
    from . import rec_process as rp
    seed, n = job
    rng = random.Random(seed)
    w = get_wrapper()
    out = []
    for j in range(n):
        if w.enough_aborts():
            break
        u = rng.random()
        kind = rp.KINDS[j % 2] if u < 0.65 else ("curve" if u < 0.8 else rp.KINDS[2 + j % 2])      # all four kinds and the curve
        sc = rp.scenario(rng, kind=kind if kind != "curve" else "ideal_iso", mode="temp")
        sc["Tperm"] = sc["T0"] - gen.logu(rng, 0.05, 10.0)             # near equilibrium: cycles of the flux map live here
        sc["N"] = rng.choice([1, 2, 3]) if not kind.startswith("nonideal") else rng.choice([3, 6, 12])
        sc["dt"] = gen.logu(rng, 1e-4, 1e-2)
        if kind.endswith("noniso") and rng.random() < 0.5:
            # self-cooling towards the permeate temperature: the driving force reverses in a LATER step
            sc.pop("dt")
            sc["removal"] = rng.uniform(0.002, 0.02)
            sc["prog"] = None
            sc.pop("want_prog", None)
            # (choosing the step length evaluates the flux once: that call runs under the watchdogs as well)
            w.start(BUDGET * 2)
            try:
                ok = rp.prepare(rng, sc) is not None
                aborted = False
            except Abort:
                ok, aborted = False, True
            _, _, cnt0 = w.stop()
            if aborted:
                out.append([{"ev": "Model", "kind": "initial_flux", "model": sc["model"], "N": sc["N"], "outcome": "abort", "exc": None,
                             "n": cnt0, "budget": BUDGET * 2, "mixname": sc["mix"].name}])
                continue
            if not ok:
                sc["dt"] = gen.logu(rng, 1e-4, 1e-2)
        perv = pv.Pervaporation(membrane=sc["membrane"], mixture=sc["mix"])
        w.start(BUDGET * 2)
        outcome, exc = "return", None
        try:
            if kind == "curve":
                comps = [pv.Composition(p=rng.uniform(0.05, 0.95), type="weight") for _ in range(sc["N"])]
                perv.ideal_diffusion_curve(sc["T0"], comps, permeate_temperature=sc["Tperm"], precision=sc["prec"],
                                           calculation_type=sc["model"])
            else:
                rp.call_model(perv, sc, rp.conditions_of(sc))
        except Abort:
            outcome = "abort"
        except Exception as e:  # noqa: BLE001
            outcome, exc = "raise", type(e).__name__
        calls, tail, cnt = w.stop()
        out.append([{"ev": "Model", "kind": kind, "model": sc["model"], "N": sc["N"], "outcome": outcome, "exc": exc, "n": cnt,
                     "budget": BUDGET * 2, "mixname": sc["mix"].name}])
    return out
