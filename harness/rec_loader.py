"""Loader recorder (C17, beyond the listed clauses): membrane directories built to the layouts and edit/load histories that
TLC derives from tla/Loader.tla, loaded with the public Membrane.load; outcome, returned object, and the directory before
and after are logged for Trace_Loader.tla."""
import os
import random
import shutil
import tempfile
from pathlib import Path

from . import gen
from .gen import pv
from .rec_store import tree, curve_fields
from .trace import F

KG = "kg/(m2*h*kPa)"
CSV_HEAD = "name,temperature,component,activation_energy,permeance,units,comment\n"


def comp_attr():
    return {id(getattr(pv.Components, a)): a for a in dir(pv.Components) if isinstance(getattr(pv.Components, a), pv.Component)}


def exp_fields(e):
    return {"name": str(e.name), "T": F(e.temperature), "comp": e.component.name, "P": F(e.permeance.convert(KG, e.component).value),
            "units": e.permeance.units, "hasEa": e.activation_energy is not None, "Ea": F(e.activation_energy or 0.0)}


class Dir:
    """a membrane directory under construction, with what was written into it"""

    def __init__(self, rng, scratch):
        self.rng = rng
        self.root = Path(tempfile.mkdtemp(prefix="mem_", dir=scratch))
        self.csv = "absent"
        self.exps = []                  # what the csv was written from
        self.entries = {}               # abstract entry name -> (kind, file name, [curve fields], mixture)
        self.attr = comp_attr()

    # ---- edits
    def put_csv(self, kind):
        rng = self.rng
        comps = gen.builtin_components()
        self.exps = []
        lines = []
        for k in range(rng.randrange(1, 6)):
            c = rng.choice(comps)
            units = gen.tstr(rng, rng.choice([KG, "SI", "GPU"]))
            perm = pv.Permeance(value=gen.logu(rng, 1e-6, 1.0), units=KG).convert(units, c)
            ea = rng.choice([None, rng.uniform(-60000.0, 120000.0), 0.0])
            T = round(rng.uniform(273.0, 400.0), rng.choice([0, 2, 6]))
            self.exps.append({"name": "e%d" % k, "T": F(T), "comp": c.name, "P": F(perm.convert(KG, c).value), "units": KG,
                              "hasEa": ea is not None, "Ea": F(ea or 0.0)})
            lines.append("e%d,%r,%s,%s,%r,%s,%s\n" % (k, T, self.attr[id(c)], "" if ea is None else repr(float(ea)), float(perm.value), units, "verif"))
        head = CSV_HEAD
        if kind == "badcols":
            head = rng.choice([CSV_HEAD.replace("activation_energy", "Ea"), CSV_HEAD.replace(",comment", ""),
                               "temperature,name,component,activation_energy,permeance,units,comment\n"])
            if head.count(",") != CSV_HEAD.count(","):
                lines = [ln.rsplit(",", 1)[0] + "\n" for ln in lines]
        with open(self.root / "ideal_experiments.csv", "w") as f:
            f.write(head)
            f.writelines(lines)
        self.csv = kind

    def drop_csv(self):
        os.remove(self.root / "ideal_experiments.csv")
        self.csv, self.exps = "absent", []

    def mk_sets(self):
        (self.root / "diffusion_curve_sets").mkdir()

    def drop_entry(self, name):
        if name in self.entries:
            os.remove(self.root / "diffusion_curve_sets" / self.entries[name][1])
            del self.entries[name]

    def put_entry(self, name, kind):
        rng = self.rng
        self.drop_entry(name)
        d = self.root / "diffusion_curve_sets"
        if kind == "skip":
            fname = rng.choice([".DS_store." + name, ".DS_store." + name + "x"])
            (d / fname).write_bytes(b"\x00\x01Bud1")
            self.entries[name] = (kind, fname, [], None)
            return
        mix = rng.choice(gen.builtin_mixtures())
        fname = name + ".csv"
        curves, frames = [], []
        import pandas
        for cid in range(rng.randrange(1, 4)):
            T = rng.uniform(290.0, 370.0)
            basis = gen.tstr(rng, rng.choice(["weight", "molar"]))
            comps = [pv.Composition(p=rng.uniform(0.02, 0.98), type=basis) for _ in range(rng.randrange(2, 6))]
            scale = gen.logu(rng, 1e-6, 1e2)
            perms = [(pv.Permeance(scale * rng.uniform(0.5, 2.0)), pv.Permeance(scale * rng.uniform(0.01, 1.0))) for _ in comps]
            mode = rng.choice(["vac", "temp", "press"])
            c = pv.DiffusionCurve(mixture=mix, membrane_name="verif", feed_temperature=T, feed_compositions=comps, permeances=perms,
                                  permeate_temperature=rng.uniform(200.0, T - 30.0) if mode == "temp" else None,
                                  permeate_pressure=rng.uniform(0.0, 2.0) if mode == "press" else None)
            tmp = d / ("." + name + "_tmp.csv")
            c.save(tmp)                                  # the public writer, one curve per file
            fr = pandas.read_csv(tmp)
            os.remove(tmp)
            fr["curve_id"] = cid + 1
            frames.append(fr)
            curves.append(curve_fields(c, mix))
        fr = pandas.concat(frames, ignore_index=True)
        if kind == "badcols":
            fr = fr.rename(columns={"composition_type": "basis"}) if rng.random() < 0.5 else fr.drop(columns=["comment"])
        fr.to_csv(d / fname, index=False)
        self.entries[name] = (kind, fname, curves, mix)

    # ---- observation
    def layout(self):
        return {"csv": self.csv, "hasSets": (self.root / "diffusion_curve_sets").exists(),
                "entries": [{"name": n, "kind": self.entries[n][0]} for n in sorted(self.entries)],
                "results": (self.root / "results").exists()}

    def listing(self):
        out = []
        for dpath, dirs, files in os.walk(self.root):
            for x in dirs:
                out.append(os.path.relpath(os.path.join(dpath, x), self.root) + "/")
        return sorted(out)

    def load(self, spec=None):
        before, dirs_before, lay = tree(self.root), self.listing(), self.layout()
        path_arg = self.root if self.rng.random() < 0.5 else str(self.root)
        ev = {"ev": "Load", "fs": lay, "hasSpec": spec is not None, "spec_outcome": (spec or {}).get("outcome", ""),
              "spec_hasIE": bool(((spec or {}).get("obj") or {}).get("hasIE", False)),
              "spec_sets": sorted(((spec or {}).get("obj") or {}).get("sets", []))}
        try:
            m = pv.Membrane.load(path_arg)
            ev["outcome"], ev["exc"] = "ok", ""
        except ValueError as e:
            m, ev["outcome"], ev["exc"] = None, "raise_columns", type(e).__name__
        except FileExistsError as e:
            m, ev["outcome"], ev["exc"] = None, "raise_nothing", type(e).__name__
        except Exception as e:  # noqa: BLE001
            m, ev["outcome"], ev["exc"] = None, "raise_other", type(e).__name__ + ": " + str(e)[:80]
        ev["before"], ev["after"] = before, tree(self.root)
        ev["dirsBefore"], ev["dirsAfter"] = dirs_before, self.listing()
        ev["resultsAfter"] = (self.root / "results").exists()
        byfile = {v[1][:-4]: n for n, v in self.entries.items() if v[1].endswith(".csv")}
        if m is not None:
            sets = m.diffusion_curve_sets or []
            ev["obj"] = {"hasIE": m.ideal_experiments is not None, "setsNone": m.diffusion_curve_sets is None,
                         "sets": sorted(byfile.get(s.name, "?" + s.name) for s in sets),
                         "name": m.name, "nameOk": m.name == self.root.stem, "pathOk": Path(m.path) == self.root}
            ev["exps_orig"] = list(self.exps) if m.ideal_experiments is not None else []
            ev["exps_loaded"] = [exp_fields(e) for e in m.ideal_experiments.experiments] if m.ideal_experiments is not None else []
            co, cl = [], []
            for s in sets:
                n = byfile.get(s.name)
                if n is None:
                    continue
                orig, mix = self.entries[n][2], self.entries[n][3]
                loaded = [curve_fields(c, mix) for c in s.diffusion_curves]
                if len(orig) != len(loaded):
                    ev["obj"]["sets"].append("!count:" + n)
                    continue
                co.extend(orig)
                cl.extend(loaded)
            ev["curves_orig"], ev["curves_loaded"] = co, cl
        else:
            ev["obj"] = {"hasIE": False, "setsNone": True, "sets": [], "name": "", "nameOk": True, "pathOk": True}
            ev["exps_orig"], ev["exps_loaded"], ev["curves_orig"], ev["curves_loaded"] = [], [], [], []
        return ev

    def close(self):
        shutil.rmtree(self.root, ignore_errors=True)


def replay_layout(rng, row, scratch):
    """one row of TLC's layout table: build the directory, load it twice"""
    d = Dir(rng, scratch)
    try:
        if row["csv"] != "absent":
            d.put_csv(row["csv"])
        if row["hasSets"]:
            d.mk_sets()
        for e in row["entries"]:
            d.put_entry(e["name"], e["kind"])
        if row["results"]:
            (d.root / "results").mkdir()
            if rng.random() < 0.5:                       # something already stored there
                (d.root / "results" / "process_0000").mkdir()
                (d.root / "results" / "process_0000" / "keep.txt").write_text("kept")
        spec = {"outcome": row["outcome"], "obj": {"hasIE": row["hasIE"], "sets": [e["name"] for e in row["entries"] if e["kind"] != "skip"]
                                                  if row["outcome"] == "ok" else []}}
        tr = [{"ev": "LoaderStart", "source": "layout"}]
        tr.append(d.load(spec))
        tr.append(d.load(None))
        return tr
    finally:
        d.close()


def replay_history(rng, hist, scratch):
    d = Dir(rng, scratch)
    tr = [{"ev": "LoaderStart", "source": "history"}]
    try:
        for h in hist:
            op = h["op"]
            if op == "putcsv":
                d.put_csv(h["kind"])
            elif op == "dropcsv":
                d.drop_csv()
            elif op == "mksets":
                d.mk_sets()
            elif op == "putentry":
                d.put_entry(h["entry"], h["kind"])
            elif op == "dropentry":
                d.drop_entry(h["entry"])
            elif op == "load":
                tr.append(d.load({"outcome": h["outcome"], "obj": h["obj"] if h["outcome"] == "ok" else {"hasIE": False, "sets": []}}))
                continue
            tr.append({"ev": "Edit", "op": op, "fs": d.layout()})
        return tr
    finally:
        d.close()


def loader_job(job):
    seed, rows, hists, scratch = job
    rng = random.Random(seed)
    os.makedirs(scratch, exist_ok=True)
    out = []
    for r in rows:
        out.append(replay_layout(rng, r, scratch))
    for h in hists:
        out.append(replay_history(rng, h, scratch))
    return out
