import os
import sys

from . import core


def main(argv):
    if len(argv) < 1:
        print("usage: check <ID> [quick|thorough]")
        return 2
    pid = argv[0].upper()
    if len(argv) > 2 and argv[1] == "--replay":
        return core.replay(pid, argv[2])
    tier = argv[1] if len(argv) > 1 else os.environ.get("VERIF_TIER", "quick")
    if tier not in ("quick", "thorough"):
        tier = "quick"
    try:
        seed = int(os.environ.get("VERIF_SEED", "0"))
    except ValueError:
        seed = 0
    return core.main(pid, tier, seed)


if __name__ == "__main__":
    sys.exit(main(sys.argv[1:]))
