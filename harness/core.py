"""Check driver: leg A (TLC model checking of the specification), recording of traces from the
real code, leg B (TLC trace validation), known-finding matching, evidence, exit code.

Exit codes: 0 property held on everything explored (KNOWN-FINDING lines allowed),
            1 VIOLATION, 2 machinery failure (nothing it reports is a verdict on the code)."""
import collections
import contextlib
import concurrent.futures as cf
import importlib
import json
import multiprocessing
import os
import random
import shutil
import sys
import time
import traceback

from . import tlc
from .trace import TraceWriter, enc

VERIF = tlc.VERIF
NCPU = min(16, os.cpu_count() or 4)


class MachineryFailure(Exception):
    pass


class Ctx:
    def __init__(self, pid, tier, seed):
        self.pid, self.tier, self.seed = pid, tier, seed
        self.quick = tier == "quick"
        # runs against another tree (seeded changes) get a scratch directory of their own, so that they can run side by side
        self.work = os.path.join(VERIF, ".work", pid if not os.environ.get("VERIF_REPO") else "%s_alt%d" % (pid, os.getpid()))
        self.rng = random.Random((seed * 1000003) ^ hash_str(pid))
        self.notes = []

    def n(self, quick, thorough):
        return quick if self.quick else thorough

    def sub_rng(self, k):
        return random.Random((self.seed * 1000003 + k * 7919) ^ hash_str(self.pid))


def hash_str(s):
    h = 1469598103
    for ch in s:
        h = ((h ^ ord(ch)) * 16777619) & 0x7FFFFFFF
    return h


def load_known_findings():
    p = os.path.join(VERIF, "known_findings.json")
    if not os.path.exists(p):
        return {"findings": [], "fixed": []}
    with open(p) as f:
        return json.load(f)


# ----------------------------------------------------------------------------- leg A
def run_leg_a(check, ctx, pool):
    """Start every model-checking configuration; returns list of (conf, future)."""
    futs = []
    for conf in check.leg_a(ctx):
        kw = dict(workers=conf.get("workers", 4), cont=False, coverage=conf.get("coverage", False),
                  timeout=conf.get("timeout", 900), extra=conf.get("extra", ()), env=conf.get("env"),
                  workdir=ctx.work, deadlock_off=conf.get("deadlock_off", False), heap=conf.get("heap", "4g"))
        futs.append((conf, pool.submit(tlc.run, conf["spec"], conf["cfg"], **kw)))
    return futs


def judge_leg_a(futs, failures):
    out = []
    states = transitions = 0
    for conf, fut in futs:
        r = fut.result()
        expect = conf.get("expect", "ok")
        rec = {"spec": conf["spec"], "cfg": conf["cfg"], "expect": expect, "generated": r.generated,
               "distinct": r.distinct, "diameter": r.diameter, "wall_s": round(r.wall_s, 2),
               "violated": r.violated_names(), "what": conf.get("what", "")}
        if r.coverage:
            rec["action_coverage"] = {k: v[0] for k, v in r.coverage.items()}
        if expect == "ok":
            if not r.ok:
                failures.append("leg A: %s/%s expected to pass but: violations=%s errors=%s" % (
                    conf["spec"], conf["cfg"], r.violated_names(), r.errors[:2]))
            never = [a for a, c in r.coverage.items() if c[0] == 0 and not a.endswith("!Init")]
            if never:
                failures.append("leg A: %s/%s vacuous: actions never taken: %s" % (conf["spec"], conf["cfg"], never))
            states += r.distinct
            transitions += max(0, r.generated - r.init_states)
        else:
            want = set(expect.split(":", 1)[1].split(","))
            got = set(r.violated_names())
            if r.errors and not got:
                failures.append("leg A: negative config %s/%s errored: %s" % (conf["spec"], conf["cfg"], r.errors[:2]))
            elif not (want & got):
                failures.append("leg A: negative config %s/%s should violate one of %s, violated %s" % (
                    conf["spec"], conf["cfg"], sorted(want), sorted(got)))
            rec["negative_config_caught"] = bool(want & got)
        out.append(rec)
    return out, states, transitions


# ----------------------------------------------------------------------------- leg B
def validate_traces(check, ctx, tw, pool, spec, cfg, tag="trace", env_extra=None):
    """Shard the traces, run one TLC (-workers 1) per shard in parallel, return per-violation records."""
    n_lines = tw.n_lines()
    if n_lines == 0:
        raise MachineryFailure("no trace lines recorded for %s" % spec)
    shards = max(1, min(NCPU, n_lines // 4000))
    files = tw.write_shards(os.path.join(ctx.work, tag), shards)
    futs = []
    for path, nl, nt in files:
        env = {"TRACE_FILE": path}
        if env_extra:
            env.update(env_extra)
        futs.append((path, nl, pool.submit(tlc.run, spec, cfg, workers=1, cont=True, env=env,
                                           workdir=ctx.work, timeout=3000, heap="3g")))
    viols = []
    distinct = generated = 0
    wall = 0.0
    for path, nl, fut in futs:
        r = fut.result()
        wall = max(wall, r.wall_s)
        if r.errors or not r.completed:
            raise MachineryFailure("leg B: TLC failed on %s: %s" % (path, (r.errors or [r.out[-800:]])[:2]))
        if r.distinct != nl:
            raise MachineryFailure("leg B: %s has %d lines but TLC visited %d states" % (path, nl, r.distinct))
        distinct += r.distinct
        generated += r.generated
        lines = None
        for v in r.violations:
            if v["kind"] != "invariant" or not v["states"]:
                raise MachineryFailure("leg B: unexpected TLC report %s" % v)
            l = int(v["states"][-1]["l"])
            if lines is None:
                with open(path) as f:
                    lines = f.read().split("\n")
            rec = json.loads(lines[l - 1])
            viols.append({"invariant": v["name"], "file": path, "line": l, "record": rec, "spec": spec, "cfg": cfg,
                          "full_trace": [json.loads(x) for x in lines[l - 1 - rec["i"]:] if x.strip()][:rec["i"] + 4]})
    # de-duplicate (an invariant violated at line l is reported once per behaviour reaching it)
    seen = set()
    uniq = []
    for v in viols:
        k = (v["invariant"], v["file"], v["line"])
        if k not in seen:
            seen.add(k)
            uniq.append(v)
    return {"violations": uniq, "states": distinct, "transitions": max(0, generated - len(tw.traces)),
            "lines": n_lines, "traces": len(tw.traces), "files": [f[0] for f in files], "wall_s": wall}


def event_histogram(tw):
    h = collections.Counter()
    for tr in tw.traces:
        for ev in tr:
            h[ev.get("ev", "?")] += 1
    return dict(h)


def trace_of(tw, t):
    return tw.traces[t]


# ----------------------------------------------------------------------------- parallel recording
def _job_runner(args):
    modname, fname, job = args
    sys.dont_write_bytecode = True
    try:
        mod = importlib.import_module(modname)
        with open(os.devnull, "w") as dn, contextlib.redirect_stdout(dn):      # the library prints advice to stdout
            return ("ok", getattr(mod, fname)(job))
    except BaseException:  # noqa: BLE001  (also a watchdog exception that escaped its call: a worker that dies would hang the pool)
        return ("err", traceback.format_exc())


def parallel(modname, fname, jobs, nproc=None):
    """Run module.fname(job) for every job in worker processes (fork); returns results in order."""
    nproc = nproc or NCPU
    if len(jobs) <= 1 or nproc <= 1:
        res = [_job_runner((modname, fname, j)) for j in jobs]
    else:
        ctxm = multiprocessing.get_context("fork")
        limit = float(os.environ.get("VERIF_JOB_TIMEOUT", "7200"))       # a safety net only (never a verdict): see below
        with ctxm.Pool(min(nproc, len(jobs))) as p:
            ar = p.map_async(_job_runner, [(modname, fname, j) for j in jobs], chunksize=1)
            try:
                res = ar.get(timeout=limit)
            except multiprocessing.TimeoutError:
                p.terminate()
                raise MachineryFailure("recorder jobs %s.%s did not finish within %.0f s: a call into the library does not return "
                                       "(only C10 runs the library under its watchdogs; elsewhere this is reported as a machinery "
                                       "failure, not as a verdict)" % (modname, fname, limit))
    out = []
    for st, val in res:
        if st != "ok":
            raise MachineryFailure("recorder job failed:\n" + val)
        out.append(val)
    return out


# ----------------------------------------------------------------------------- main
def replay(pid, path):
    """re-validate the recorded trace(s) of a replay file with TLC: prints which clause fails at which recorded state"""
    with open(path) as f:
        rp = json.load(f)
    work = os.path.join(VERIF, ".work", "replay_%s" % pid)
    shutil.rmtree(work, ignore_errors=True)
    os.makedirs(work, exist_ok=True)
    status = 0
    for n, v in enumerate(rp.get("violations", [])):
        tr = v.get("full_trace") or []
        if not tr or not v.get("spec"):
            print("violation %d: clause %s at %s (no trace stored)" % (n, v["invariant"], json.dumps(v["record"])[:300]))
            continue
        # keep the lines of this trace only, renumbered
        t0 = tr[0].get("t")
        tr = [e for e in tr if e.get("t") == t0]
        fn = os.path.join(work, "replay_%d.ndjson" % n)
        with open(fn, "w") as f:
            for e in tr:
                f.write(json.dumps(e) + "\n")
        r = tlc.run(v["spec"], v["cfg"], workers=1, cont=True, env={"TRACE_FILE": fn}, workdir=work)
        names = r.violated_names()
        print("violation %d: recorded clause %s; TLC on the stored trace (%d lines): %s" % (
            n, v["invariant"], len(tr), ("violates " + ", ".join(names)) if names else "no violation" + (" " + str(r.errors[:1]) if r.errors else "")))
        if names:
            status = 1
    return status


def write_evidence(pid, ev):
    edir = os.path.join(VERIF, "evidence")
    if os.environ.get("VERIF_REPO"):          # a run against another tree (seeded change) never touches the real evidence
        edir = os.path.join(VERIF, ".work", "evidence_alt")
    os.makedirs(edir, exist_ok=True)
    p = os.path.join(edir, pid + ".json")
    with open(p + ".tmp", "w") as f:
        json.dump(enc(ev), f, indent=1, sort_keys=True)
    os.replace(p + ".tmp", p)


def main(pid, tier, seed):
    t0 = time.time()
    ctx = Ctx(pid, tier, seed)
    shutil.rmtree(ctx.work, ignore_errors=True)
    os.makedirs(ctx.work, exist_ok=True)
    check = importlib.import_module("harness.checks." + pid.lower())
    failures = []
    evidence = {"property_id": pid, "tier": tier, "seed": seed, "level": "model_checking",
                "coverage": {}, "assumptions": list(getattr(check, "ASSUMPTIONS", [])), "wall_s": 0.0, "violations": 0}
    exit_code = 0
    try:
        with cf.ThreadPoolExecutor(max_workers=NCPU) as pool:
            futs_a = run_leg_a(check, ctx, pool)
            futs_p = [pool.submit(tlaps, ctx, module, deps) for module, deps in getattr(check, "TLAPS", [])]
            result = check.run(ctx, pool)           # records traces + validates them (leg B/C)
            leg_a, st_a, tr_a = judge_leg_a(futs_a, failures)
            if futs_p:
                proofs = []
                for f in futs_p:
                    rec, fails = f.result()
                    proofs.append(rec)
                    failures.extend(fails)
                result.setdefault("coverage", {})["tlaps"] = proofs
        cov = evidence["coverage"]
        cov.update(result.get("coverage", {}))
        cov["states"] = st_a + result.get("states", 0)
        cov["transitions"] = tr_a + result.get("transitions", 0)
        cov["spec_states"] = st_a + int(result.get("coverage", {}).get("spec_states", 0) or 0)    # leg-A runs made inside run() (table exports)
        cov["trace_states"] = result.get("states", 0)
        cov["traces_validated_against_impl"] = result.get("traces", 0)
        cov["leg_a"] = leg_a
        cov["exhaustive"] = False
        cov.setdefault("samples", result.get("samples", []))
        if not cov["samples"]:
            failures.append("no samples recorded")
        for k, v in (result.get("required_events") or {}).items():
            if v <= 0:
                failures.append("vacuous: no '%s' events were recorded" % k)
        failures.extend(result.get("failures", []))
        kf = load_known_findings()
        known_hits = collections.OrderedDict()
        new_viol = []
        drift = []
        for v in result.get("violations", []):
            cls = check.classify(v, kf) if hasattr(check, "classify") else (
                ("drift", None) if v["invariant"].startswith(("Ref_", "Step_")) else ("violation", None))
            if cls[0] == "known":
                known_hits.setdefault(cls[1], []).append(v)
            elif cls[0] == "drift":
                drift.append(v)
            else:
                new_viol.append(v)
        for key, vs in known_hits.items():
            print("KNOWN-FINDING: property=%s %s (%d occurrence(s) in this run)" % (pid, key, len(vs)))
        cov["known_findings_seen"] = {k: len(v) for k, v in known_hits.items()}
        cov["drift"] = [{"invariant": d["invariant"], "record": d["record"]} for d in drift[:10]]
        cov["drift_count"] = len(drift)
        if drift:
            print("DRIFT: %d record(s) disagree with the reference semantics without violating a clause of %s" % (len(drift), pid))
        evidence["violations"] = len(new_viol)
        if new_viol:
            os.makedirs(os.path.join(VERIF, ".work", "replays"), exist_ok=True)
            rp = os.path.join(VERIF, ".work", "replays", "replay_%s_%s_%d%s.json" % (
                pid, tier, seed, "_alt%d" % os.getpid() if os.environ.get("VERIF_REPO") else ""))
            byinv = collections.Counter(v["invariant"] for v in new_viol)
            with open(rp, "w") as f:
                json.dump(enc({"property": pid, "tier": tier, "seed": seed, "by_clause": dict(byinv),
                               "violations": [dict(v, trace=result["trace_lookup"](v) if "trace_lookup" in result else None)
                                              for v in new_viol[:20]]}), f, indent=1)
            cov["violated_clauses"] = dict(byinv)
            for inv, cnt in byinv.items():
                print("  clause %s violated at %d recorded state(s)" % (inv, cnt))
            print("VIOLATION property=%s replay=%s" % (pid, rp))
            exit_code = 1
        if failures:
            for f_ in failures:
                print("MACHINERY-FAILURE: " + f_)
            cov["machinery_failures"] = failures
            if exit_code == 0:
                exit_code = 2
    except Exception as e:  # noqa: BLE001  (MachineryFailure or anything unexpected: never a verdict on the code)
        if not isinstance(e, MachineryFailure):
            e = MachineryFailure("unexpected %s: %s\n%s" % (type(e).__name__, e, traceback.format_exc()[-1500:]))
        print("MACHINERY-FAILURE: %s" % e)
        evidence["coverage"].setdefault("explanation", "machinery failure: %s" % e)
        evidence["coverage"]["machinery_failures"] = [str(e)]
        exit_code = 2
    evidence["wall_s"] = round(time.time() - t0, 2)
    if exit_code != 2:
        write_evidence(pid, evidence)
    c = evidence["coverage"]
    print("%s %s seed=%d: spec states=%s, trace states=%s, traces=%s, violations=%d, %.1fs -> exit %d" % (
        pid, tier, seed, c.get("spec_states"), c.get("trace_states"), c.get("traces_validated_against_impl"),
        evidence["violations"], evidence["wall_s"], exit_code))
    return exit_code



def apalache(ctx, module, obligations, negatives=(), cinit="CInit", nxt="ANext", timeout=300):
    """Discharge inductive obligations with Apalache (symbolic; histories of any length / symbolic constants).
    obligations: [(name, [args])]; negatives: [(name, [args])] that must be REFUTED (a named wrong design).
    Returns (record for the evidence, failures). A timeout is reported, anything else unexpected is a failure."""
    import shutil
    import subprocess
    if shutil.which("apalache-mc") is None:
        return {"ran": False, "why": "apalache-mc not on PATH"}, []
    out_dir = os.path.join(ctx.work, "apalache_" + module.replace(".tla", ""))
    res, fails = {"ran": True, "module": module, "obligations": []}, []
    for name, args, want_ok in [(n, a, True) for n, a in obligations] + [(n, a, False) for n, a in negatives]:
        cmd = ["apalache-mc", "check", "--next=" + nxt, "--out-dir=" + out_dir] + ([] if any(x.startswith("--cinit") for x in args) else ["--cinit=" + cinit]) + list(args) + [module]
        try:
            p = subprocess.run(cmd, cwd=tlc.TLA_DIR, stdout=subprocess.PIPE, stderr=subprocess.STDOUT, text=True, timeout=timeout)
            ok = "EXITCODE: OK" in p.stdout
            refuted = "EXITCODE: ERROR (12)" in p.stdout
            if want_ok:
                res["obligations"].append({"name": name, "discharged": ok})
                if not ok:
                    fails.append("apalache obligation %s of %s not discharged: %s" % (name, module, p.stdout[-300:]))
            else:
                res["obligations"].append({"name": name, "negative": True, "refuted": refuted})
                if not refuted:
                    fails.append("apalache: the wrong design %s of %s was not refuted: %s" % (name, module, p.stdout[-300:]))
        except subprocess.TimeoutExpired:
            res["obligations"].append({"name": name, "discharged": False, "timeout": True})
    shutil.rmtree(out_dir, ignore_errors=True)
    return res, fails


def tlaps(ctx, proof_module, deps, timeout=900):
    """Check a TLAPS proof module (tla/proofs/<proof_module>) about the specification modules `deps` (tla/<dep>) with tlapm, in a
    scratch directory without a fingerprint cache.  Returns (record for the evidence, failures); a timeout is reported only."""
    import re
    import shutil
    import subprocess
    if shutil.which("tlapm") is None:
        return {"ran": False, "why": "tlapm not on PATH"}, []
    d = os.path.join(ctx.work, "tlaps_" + proof_module.replace(".tla", ""))
    shutil.rmtree(d, ignore_errors=True)
    os.makedirs(d)
    shutil.copy(os.path.join(tlc.TLA_DIR, "proofs", proof_module), d)
    for dep in deps:
        shutil.copy(os.path.join(tlc.TLA_DIR, dep), d)
    rec, fails = {"ran": True, "module": "proofs/" + proof_module, "about": list(deps)}, []
    t0 = time.time()
    try:
        # tlapm leaves back-end provers (z3 ...) running after it has finished: it gets a process group of its own, which is
        # killed as a whole afterwards
        import signal
        pr = subprocess.Popen(["tlapm", "--cleanfp", proof_module], cwd=d, stdout=subprocess.PIPE, stderr=subprocess.STDOUT, text=True,
                              start_new_session=True)
        try:
            out, _ = pr.communicate(timeout=timeout)
        finally:
            try:
                os.killpg(pr.pid, signal.SIGKILL)
            except (ProcessLookupError, PermissionError):
                pass

        class P:
            stdout = out
        p = P
        m = re.search(r"All (\d+) obligations? proved", p.stdout)
        rec["proved"] = bool(m)
        rec["obligations"] = int(m.group(1)) if m else 0
        if not m:
            fails.append("tlapm did not prove %s: %s" % (proof_module, p.stdout[-400:]))
    except subprocess.TimeoutExpired:
        rec["proved"], rec["timeout"] = False, True
    rec["seconds"] = round(time.time() - t0, 1)
    shutil.rmtree(d, ignore_errors=True)
    return rec, fails


def attach_tlaps(ctx, res, proofs):
    """run TLAPS proof modules and record them in the evidence (coverage.tlaps); an unproved module is a machinery failure"""
    out = []
    for module, deps in proofs:
        rec, fails = tlaps(ctx, module, deps)
        out.append(rec)
        res.setdefault("failures", [])
        res["failures"] = list(res["failures"]) + fails
    res.setdefault("coverage", {})["tlaps"] = out
    return res
