--------------------------- MODULE Trace_Component ---------------------------
(***************************************************************************)
(* Leg B for C13: call tables recorded from the real Component methods.     *)
(* Vap{vp, T, h, p, pPlus, pMinus, hvap}                                    *)
(* Cool{hc, t0, t1, tm, q01, q0m, qm1, q10, q00, cp0, cpmid, cp1, h, qPlus, qMinus} *)
(* Property clauses Cl_xxx relate outputs of the public functions to each   *)
(* other; Ref_xxx compare them with the specification's formulas (DRIFT).     *)
(***************************************************************************)
EXTENDS Integers, Sequences, TLC, F64, F64Json, IOUtils

Trace == F64NdJson(IOEnv.TRACE_FILE)
EqD(x, y, s) == FCloseS(x, y, s, Lit("1e-8"))      \* finite-difference relations (Richardson-extrapolated, step 1e-4 T)
EqX(x, y, s) == FCloseS(x, y, s, Lit("1e-12"))     \* algebraic relations
EqR(x, y, s) == FCloseS(x, y, s, Lit("1e-9"))      \* reference formulas with exp/log/pow
KD == INSTANCE Component WITH Add <- FAdd, Sub <- FSub, Mul <- FMul, Div <- FDiv, Lt <- FLt, Le <- FLe,
                              Eq <- EqD, Dec <- Lit, Exp <- FExp, Ln <- FLog, Pow10 <- FPow10
KX == INSTANCE Component WITH Add <- FAdd, Sub <- FSub, Mul <- FMul, Div <- FDiv, Lt <- FLt, Le <- FLe,
                              Eq <- EqX, Dec <- Lit, Exp <- FExp, Ln <- FLog, Pow10 <- FPow10
KR == INSTANCE Component WITH Add <- FAdd, Sub <- FSub, Mul <- FMul, Div <- FDiv, Lt <- FLt, Le <- FLe,
                              Eq <- EqR, Dec <- Lit, Exp <- FExp, Ln <- FLog, Pow10 <- FPow10

VARIABLE l
Init == l \in 1..Len(Trace)
Next == FALSE /\ l' = l
Spec == Init /\ [][Next]_l
E == Trace[l]

KnownEvent == E.ev \in {"Vap", "Cool"}

\* magnitude of the terms entering a cooling heat (cancellation is measured against it)
A(x) == FAbs(x)
CoolScale(hc, t0, t1) ==
  FAdd(FAdd(FAdd(FMul(A(hc.a), FAdd(A(t0), A(t1))),
                 FDiv(FMul(A(hc.b), FAdd(KX!Sq(t0), KX!Sq(t1))), Lit("2.0"))),
            FDiv(FMul(A(hc.c), FAdd(A(KX!Cube(t0)), A(KX!Cube(t1)))), Lit("3.0"))),
       FDiv(FMul(A(hc.d), FAdd(KX!P4(t0), KX!P4(t1))), Lit("4.0")))

Cl_ClausiusClapeyron ==
  (E.ev = "Vap") => KD!ClausiusClapeyronR(E.hvap, E.T, E.h, E.pPlus, E.pMinus, E.pPlus2, E.pMinus2, FMul(E.hvap, Lit("1000")))
Cl_IsIntegral ==
  (E.ev = "Cool") => KX!IsIntegral(E.q01, E.t0, E.t1, E.cp0, E.cpmid, E.cp1, CoolScale(E.hc, E.t0, E.t1))
Cl_Additive ==
  (E.ev = "Cool") => KX!Additive(E.q01, E.q0m, E.qm1,
                                 FAdd(CoolScale(E.hc, E.t0, E.tm), CoolScale(E.hc, E.tm, E.t1)))
Cl_Antisymmetric == (E.ev = "Cool") => KX!Antisymmetric(E.q01, E.q10, CoolScale(E.hc, E.t0, E.t1))
Cl_ZeroOnEmpty   == (E.ev = "Cool") => FEqNum(E.q00, Lit("0.0"))
Cl_Derivative ==
  (E.ev = "Cool") => KX!Derivative(E.qPlus, E.qMinus, E.h, E.cp0, KX!Cp2(E.hc, E.t0),
                                   FAdd(A(E.cp0), FDiv(CoolScale(E.hc, E.t0, E.t1), E.h)))

Ref_Psat == (E.ev = "Vap") => EqR(E.p, KR!Psat(E.vp, E.T), E.p)
Ref_Hvap == (E.ev = "Vap") => EqR(E.hvap, KR!Hvap(E.vp, E.T), E.hvap)
Ref_Cp   == (E.ev = "Cool") => EqX(E.cp0, KX!Cp(E.hc, E.t0), CoolScale(E.hc, E.t0, E.t0))
Ref_Cooling == (E.ev = "Cool") => EqX(E.q01, KX!Cooling(E.hc, E.t0, E.t1), CoolScale(E.hc, E.t0, E.t1))
=============================================================================
