SPECIFICATION SimSpec
CONSTANT Entries <- EntrySet
CONSTANT Objects <- ObjectSet
CONSTANT Impure = {}
CONSTANT MaxCalls = 8
CHECK_DEADLOCK FALSE
