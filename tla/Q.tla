-------------------------------- MODULE Q --------------------------------
LOCAL INSTANCE TLC
(***************************************************************************)
(* Exact arbitrary-precision rationals for TLC: the canonical string "n/d" *)
(* (d > 0, lowest terms); overridden by tlc2.module.Q on BigInteger.       *)
(***************************************************************************)
QLit(s)    == CHOOSE x \in {} : TRUE
QInt(i)    == CHOOSE x \in {} : TRUE
QRat(n, d) == CHOOSE x \in {} : TRUE
QAdd(a, b) == CHOOSE x \in {} : TRUE
QSub(a, b) == CHOOSE x \in {} : TRUE
QMul(a, b) == CHOOSE x \in {} : TRUE
QDiv(a, b) == CHOOSE x \in {} : TRUE
QNeg(a)    == CHOOSE x \in {} : TRUE
QAbs(a)    == CHOOSE x \in {} : TRUE
QLt(a, b)  == CHOOSE x \in BOOLEAN : TRUE
QLe(a, b)  == CHOOSE x \in BOOLEAN : TRUE
QIsZero(a) == CHOOSE x \in BOOLEAN : TRUE
QStr(a)    == CHOOSE x \in {} : TRUE
QNoFn(a) == Assert(FALSE, "transcendental function not available over exact rationals")
QEq(a, b, scale) == a = b       \* canonical form: equality is string equality
=============================================================================
