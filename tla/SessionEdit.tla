----------------------------- MODULE SessionEdit -----------------------------
(***************************************************************************)
(* A modelling session in which the CALLER edits the shared argument        *)
(* objects in place between calls (C20, extending Session.tla): a sweep     *)
(* over conditions.membrane_area, a fraction re-assigned on a composition   *)
(* object, an experiment appended to a membrane, a measured value           *)
(* corrected.  Objects are abstracted to the number of edits they have      *)
(* received; a call's result is an uninterpreted function of the entry      *)
(* point and of what the objects HOLD when it is made.                      *)
(*   Call(e)   a modelling call: never changes what an object holds, and    *)
(*             answers what a fresh session answers for objects built to    *)
(*             hold the same values                                         *)
(*   Edit(o)   the caller's edit (its right)                                *)
(* Stale: a set of entry points that (named wrong design) answer from a     *)
(* cache keyed by the IDENTITY of an object - they repeat their first       *)
(* answer after the object was edited.                                      *)
(***************************************************************************)
EXTENDS Integers, Sequences
CONSTANTS Entries, Objects, Editable, Stale, MaxSteps
VARIABLES held, cache, log
vars == <<held, cache, log>>
Unedited == [o \in Objects |-> 0]
ResultOf(e, h) == <<e, h>>                       \* uninterpreted: depends on everything the call can see
NoCache == [e \in Entries |-> <<>>]

Init == held = Unedited /\ cache = NoCache /\ log = <<>>
Call(e) ==
  /\ Len(log) < MaxSteps
  /\ LET basis == IF e \in Stale /\ cache[e] # <<>> THEN cache[e][1] ELSE held
     IN log' = Append(log, [op |-> "call", entry |-> e, held |-> held, result |-> ResultOf(e, basis)])
  /\ cache' = [cache EXCEPT ![e] = IF @ = <<>> THEN <<held>> ELSE @]
  /\ held' = held
Edit(o) ==
  /\ Len(log) < MaxSteps
  /\ held' = [held EXCEPT ![o] = @ + 1]
  /\ log' = Append(log, [op |-> "edit", entry |-> o, held |-> held', result |-> <<>>])
  /\ cache' = cache
Next == (\E e \in Entries : Call(e)) \/ (\E o \in Editable : Edit(o))
Spec == Init /\ [][Next]_vars

\* every call answers as a fresh session does for objects holding what the caller's objects hold at that moment
SameAsFreshOnHeld == \A j \in 1..Len(log) : (log[j].op = "call") => log[j].result = ResultOf(log[j].entry, log[j].held)
\* calls never change what an object holds
CallsKeepHeld == [][(\E e \in Entries : Call(e)) => held' = held]_vars
=============================================================================
