SPECIFICATION Spec
CONSTANT Dev = "sorted"
INVARIANT Inv_Complete
INVARIANT Inv_OrderKept
INVARIANT Inv_BasisFree
CHECK_DEADLOCK FALSE
