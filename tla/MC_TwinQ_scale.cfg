SPECIFICATION Spec
CONSTANT Rel = "scale"
CONSTANT K = "3/2"
CONSTANT DevB = "none"
INVARIANT Inv_Together
INVARIANT Inv_SameGuards
INVARIANT Inv_Related
CHECK_DEADLOCK FALSE
