SPECIFICATION Spec
CONSTANT Deviation = "both_means_temperature"
INVARIANT RejectsInvalid
CHECK_DEADLOCK FALSE
