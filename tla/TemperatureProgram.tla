-------------------------- MODULE TemperatureProgram --------------------------
(***************************************************************************)
(* Temperature programmes (pyvaporation/conditions/conditions.py:16-69):    *)
(*   polynomial   sum_i c_i x^i                                             *)
(*   exponential  c_0 exp( sum_{i>=1} c_i x^(i-1) )                         *)
(*   logarithmic  c_0 ln ( sum_{i>=1} c_i x^(i-1) )                         *)
(* p = [type, coeffs (sequence c_0, c_1, ...)]; x: time in hours.           *)
(***************************************************************************)
EXTENDS Integers, Sequences
CONSTANTS Add(_,_), Mul(_,_), Dec(_), Exp(_), Ln(_), PowInt(_,_)
Zero == Dec("0")
RECURSIVE SumFrom(_, _, _, _)
\* sum over i = from..Len(c) of c[i] * x^(i - 1 - shift)      (c is 1-based here: c[i] is the code's c_{i-1})
SumFrom(c, x, i, shift) == IF i > Len(c) THEN Zero ELSE Add(Mul(c[i], PowInt(x, i - 1 - shift)), SumFrom(c, x, i + 1, shift))
Value(p, x) ==
  IF p.type = "polynomial" THEN SumFrom(p.coeffs, x, 1, 0)
  ELSE IF p.type = "exponential" THEN Mul(p.coeffs[1], Exp(SumFrom(p.coeffs, x, 2, 1)))
  ELSE Mul(p.coeffs[1], Ln(SumFrom(p.coeffs, x, 2, 1)))
=============================================================================
