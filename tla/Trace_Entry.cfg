SPECIFICATION Spec
INVARIANT KnownEvent
INVARIANT Cl_SameFluxes
INVARIANT Cl_YFromFluxes
INVARIANT Cl_SepFactorDef
INVARIANT Cl_PsiDef
INVARIANT Ref_Outcome
CHECK_DEADLOCK FALSE
