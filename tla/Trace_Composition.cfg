SPECIFICATION Spec
INVARIANT KnownEvent
INVARIANT Cl_ConversionTotal
INVARIANT Cl_RoundTrip
INVARIANT Cl_FixesEnds
INVARIANT Cl_SumOne
INVARIANT Cl_RatioLaw
INVARIANT Cl_Monotone
INVARIANT Cl_RejectsOutside
INVARIANT Cl_ForeignResult
INVARIANT Step_Conv
CHECK_DEADLOCK FALSE
