SPECIFICATION Spec
INVARIANT KnownEvent
INVARIANT Step_Conv
INVARIANT Cl_RoundTrip
INVARIANT Cl_FixesEnds
INVARIANT Cl_SumOne
INVARIANT Cl_RatioLaw
INVARIANT Cl_Monotone
INVARIANT Cl_RejectsOutside
CHECK_DEADLOCK FALSE
