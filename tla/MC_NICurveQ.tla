---------------------------- MODULE MC_NICurveQ ----------------------------
(***************************************************************************)
(* Leg A for the curve half of C05: whole runs of the NICurve machine with  *)
(* exact rationals.  The fitted functions are FREE (their values at every   *)
(* grid point are chosen by TLC), so are the fluxes: the result holds for   *)
(* any fit, solver, mixture and permeate mode.  Grids that leave [0,1]      *)
(* (upwards and downwards) exercise Raise, including the look-ahead point.  *)
(***************************************************************************)
EXTENDS Integers, Sequences, TLC, Q, Json, IOUtils
CONSTANT Dev
VARIABLES run, xs, Ps, Js, fv, FR, pc
NI == INSTANCE NICurve WITH Add <- QAdd, Sub <- QSub, Mul <- QMul, Div <- QDiv, Lt <- QLt, Le <- QLe, Eq <- QEq, Dec <- QLit
Runs == [N: 0..3, x0w: {QRat(1, 4), QRat(3, 4)}, dx: {QRat(1, 16), QRat(1, 8), QRat(-1, 8)}, hasInit: BOOLEAN,
         P0: {<<QLit("3"), QRat(1, 2)>>}]
E0s == [f1: {QLit("2"), QRat(1, 3)}, f2: {QLit("5")}]
Es  == [J1: {QLit("1")}, J2: {QLit("2")}, f1n: {QRat(1, 2), QLit("4")}, f2n: {QRat(1, 7), QLit("3")}]
\* leg C: the run shapes of this instance are written out; recorded curves of the real model must cover every one of them
Shapes == {[N |-> r.N, hasInit |-> r.hasInit, up |-> QLt(QLit("0"), r.dx),
            outcome |-> IF NI!ReturnsByGrid(r.x0w, r.dx, r.N) THEN "return" ELSE "raise"] : r \in Runs}
RECURSIVE SetToSeqR(_)
SetToSeqR(S) == IF S = {} THEN <<>> ELSE LET z == CHOOSE z \in S : TRUE IN <<z>> \o SetToSeqR(S \ {z})
ASSUME IF "SHAPE_FILE" \in DOMAIN IOEnv THEN ndJsonSerialize(IOEnv.SHAPE_FILE, SetToSeqR(Shapes)) ELSE TRUE
Init == pc = "init" /\ run = <<>> /\ xs = <<>> /\ Ps = <<>> /\ Js = <<>> /\ fv = <<>> /\ FR = <<>>
DoStart == \E r \in Runs, e0 \in E0s : NI!Start(r, e0)
DoStep == \E e \in Es : NI!Step(e)
DoRaise == NI!Raise
DoFinish == NI!Finish
Next == DoStart \/ DoStep \/ DoRaise \/ DoFinish
Spec == Init /\ [][Next]_NI!vars
Inv_Len == NI!LenOK
Inv_Init0 == NI!Init0
Inv_Grid == NI!Grid
Inv_PermFollowsFit == NI!PermFollowsFit
Inv_Step0 == NI!Step0
Inv_AllValid == NI!AllValid
Inv_LookAheadValid == NI!LookAheadValid
\* a raise happens exactly on the grids ReturnsByGrid excludes; a return exactly on the others
Inv_Outcome == /\ (pc = "raised" => ~NI!ReturnsByGrid(run.x0w, run.dx, run.N))
               /\ (pc = "returned" => NI!ReturnsByGrid(run.x0w, run.dx, run.N))
\* reachability witnesses (negative configurations: TLC must refute them, so that neither outcome is vacuous)
NeverReturned == pc # "returned"
NeverRaised == pc # "raised"
=============================================================================
