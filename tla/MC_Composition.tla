--------------------------- MODULE MC_Composition ---------------------------
(***************************************************************************)
(* Leg A for C15: the conversion machine with exact rationals.  Two         *)
(* compositions a < b of one mixture are converted back and forth in any    *)
(* order; every clause of C15 is an invariant.  The formulas are rational   *)
(* functions of (p, M1, M2) of degree <= 1 in p after cross-multiplication, *)
(* so agreement on these grids is agreement for all reals.                  *)
(***************************************************************************)
EXTENDS Integers, Sequences, TLC, Q
CONSTANT Deviation      \* "none" | "drop_m2" | "swap_m" : named wrong designs (negative configs)

C == INSTANCE Composition WITH Add <- QAdd, Sub <- QSub, Mul <- QMul, Div <- QDiv,
                               Lt <- QLt, Le <- QLe, Eq <- QEq, Dec <- QLit

Fractions == {QLit("0"), QRat(1, 1000000), QRat(1, 4), QRat(1, 2), QRat(2, 3), QRat(999999, 1000000), QLit("1")}
Masses    == {QRat(1, 50), QLit("1"), QLit("18.02"), QLit("46.07"), QLit("1000")}

VARIABLES a, b, oa, ob, m, n
vars == <<a, b, oa, ob, m, n>>

Init == /\ m \in (Masses \X Masses)
        /\ \E t \in C!Types : \E pa \in Fractions, pb \in Fractions :
              /\ QLt(pa, pb)
              /\ a = [p |-> pa, type |-> t] /\ b = [p |-> pb, type |-> t]
        /\ oa = a /\ ob = b /\ n = 0

BadConv(c, to) ==       \* the named wrong designs
  IF c.type = to THEN c
  ELSE IF Deviation = "drop_m2"
         THEN [p |-> IF to = "molar" THEN QDiv(QDiv(c.p, m[1]), QAdd(QDiv(c.p, m[1]), QSub(QLit("1"), c.p)))
                                     ELSE C!ToWeightP(c.p, m[1], m[2]), type |-> to]
         ELSE [p |-> C!ConvP(c.p, c.type, to, m[2], m[1]), type |-> to]     \* swap_m

Conv(c, to) == IF Deviation = "none" THEN C!Convert(c, to, m[1], m[2]) ELSE BadConv(c, to)

ConvertTo(to) == /\ n < 4
                 /\ a' = Conv(a, to) /\ b' = Conv(b, to)
                 /\ n' = n + 1 /\ UNCHANGED <<oa, ob, m>>
Next == \E to \in C!Types : ConvertTo(to)
Spec == Init /\ [][Next]_vars

\* the step relation of the specification is what trace validation checks on the code
StepIsConvRel == [][\E to \in C!Types : C!ConvRel(a, to, a', m[1], m[2], QLit("1"))]_vars

Inv_RoundTrip == C!RoundTrip(oa, a, QLit("1")) /\ C!RoundTrip(ob, b, QLit("1"))
Inv_FixesEnds == C!FixesEnds(oa, a) /\ C!FixesEnds(ob, b)
Inv_SumOne    == C!SumOne(a, a.p, C!Second(a.p), QLit("1"))
Inv_RatioLaw  == C!RatioLaw(oa, a, m[1], m[2], QLit("1")) /\ C!RatioLaw(ob, b, m[1], m[2], QLit("1"))
Inv_Monotone  == C!Monotone(a, b)
Inv_Valid     == C!Valid(a.p) /\ C!Valid(b.p)
=============================================================================
