SPECIFICATION ASpec
CONSTANT Bounded = FALSE
CONSTANT MaxIter = 4
PROPERTY Terminates
CHECK_DEADLOCK FALSE
