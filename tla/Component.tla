----------------------------- MODULE Component -----------------------------
(***************************************************************************)
(* Pure-component thermodynamics (pyvaporation/components/component.py):    *)
(* saturation pressure (Antoine, base 10; Frost), heat of vaporisation      *)
(* (Clausius-Clapeyron, kJ/mol), cubic heat-capacity polynomial (J/mol/K)   *)
(* and its integral, the cooling heat (J/mol).                              *)
(* vp = [type, a, b, c];  hc = [a, b, c, d].                                *)
(***************************************************************************)
CONSTANTS Add(_,_), Sub(_,_), Mul(_,_), Div(_,_), Lt(_,_), Le(_,_), Eq(_,_,_), Dec(_),
          Exp(_), Ln(_), Pow10(_)

Zero == Dec("0")
One  == Dec("1")
Two  == Dec("2")
R    == Dec("8.314462")
Sq(x) == Mul(x, x)
Cube(x) == Mul(x, Mul(x, x))
P4(x) == Mul(Sq(x), Sq(x))

(* --- vapour pressure, kPa --------------------------------------------------------------- *)
Psat(vp, T) ==
  IF vp.type = "antoine" THEN Pow10(Add(vp.a, Div(vp.b, Add(T, vp.c))))
  ELSE Exp(Add(Add(vp.a, Div(vp.b, T)), Div(vp.c, Sq(T))))

(* --- heat of vaporisation, kJ/mol: R T^2 dlnP/dT / 1000 --------------------------------- *)
Ln10 == Ln(Dec("10"))
Hvap(vp, T) ==
  IF vp.type = "antoine"
  THEN Div(Sub(Zero, Mul(Mul(Mul(Sq(Div(T, Add(T, vp.c))), R), vp.b), Ln10)), Dec("1000"))
  ELSE Div(Mul(Sub(Zero, R), Add(vp.b, Div(Mul(Two, vp.c), T))), Dec("1000"))

\* analytic dlnP/dT of the two equations (what Clausius-Clapeyron differentiates)
DLnP(vp, T) ==
  IF vp.type = "antoine" THEN Sub(Zero, Div(Mul(Ln10, vp.b), Sq(Add(T, vp.c))))
  ELSE Sub(Zero, Add(Div(vp.b, Sq(T)), Div(Mul(Two, vp.c), Cube(T))))

(* --- heat capacity and cooling heat ----------------------------------------------------- *)
Cp(hc, T) == Add(Add(Add(hc.a, Mul(hc.b, T)), Mul(hc.c, Sq(T))), Mul(hc.d, Cube(T)))
\* as the code writes the antiderivative difference
Cooling(hc, t0, t1) ==
  Add(Add(Add(Mul(hc.a, Sub(t0, t1)),
              Div(Mul(hc.b, Sub(Sq(t0), Sq(t1))), Two)),
          Div(Mul(hc.c, Sub(Cube(t0), Cube(t1))), Dec("3"))),
      Div(Mul(hc.d, Sub(P4(t0), P4(t1))), Dec("4")))
\* second derivative of Cp (for the exact central-difference identity of a quartic)
Cp2(hc, T) == Add(Mul(Two, hc.c), Mul(Mul(Dec("6"), hc.d), T))

(* ---- clauses of C13 (relations between values returned by the public functions) -------- *)
\* Clausius-Clapeyron on a central difference of ln Psat:  hvap*1000 = R T^2 (lnP(T+h)-lnP(T-h))/(2h)
ClausiusClapeyron(hvap, T, h, pPlus, pMinus, scale) ==
  Eq(Mul(hvap, Dec("1000")),
     Mul(Mul(R, Sq(T)), Div(Sub(Ln(pPlus), Ln(pMinus)), Mul(Two, h))), scale)
\* the same with Richardson extrapolation of the step-h and step-2h differences (error ~ h^4)
ClausiusClapeyronR(hvap, T, h, pPlus, pMinus, pPlus2, pMinus2, scale) ==
  LET d1 == Div(Sub(Ln(pPlus), Ln(pMinus)), Mul(Two, h))
      d2 == Div(Sub(Ln(pPlus2), Ln(pMinus2)), Mul(Dec("4"), h))
  IN Eq(Mul(hvap, Dec("1000")), Mul(Mul(R, Sq(T)), Div(Sub(Mul(Dec("4"), d1), d2), Dec("3"))), scale)
\* cooling heat = integral of Cp: Simpson's rule is exact for a cubic
IsIntegral(q01, t0, t1, cp0, cpm, cp1, scale) ==
  Eq(q01, Mul(Div(Sub(t0, t1), Dec("6")), Add(Add(cp1, Mul(Dec("4"), cpm)), cp0)), scale)
Additive(q01, q0m, qm1, scale) == Eq(q01, Add(q0m, qm1), scale)
Antisymmetric(q01, q10, scale) == Eq(q01, Sub(Zero, q10), scale)
ZeroOnEmpty(q00) == q00 = Zero
\* d/dt0 Cooling = Cp: central difference of a quartic is exact up to the h^2/6 Cp'' term
Derivative(qPlus, qMinus, h, cp0, cp2, scale) ==
  Eq(Div(Sub(qPlus, qMinus), Mul(Two, h)), Add(cp0, Mul(Div(Sq(h), Dec("6")), cp2)), scale)
=============================================================================
