------------------------------- MODULE Extract -------------------------------
(***************************************************************************)
(* Measurement extraction (pyvaporation/optimizer/optimizer.py: 46-104):    *)
(* Measurements.from_diffusion_curve(s)_first / _second as a pure function  *)
(* of a curve set, over an abstract arithmetic.                             *)
(*   set   = sequence of curves, in the CALLER's order                      *)
(*   curve = [T, pts],  pts = sequence of [x, xtype, P]   (P: permeance     *)
(*           pair in kg/(m2 h kPa), x: fraction of the first component in   *)
(*           the basis xtype)                                               *)
(* The measurements of component c are one point per curve point, curve by  *)
(* curve and point by point in the given order: (mass fraction of the first *)
(* component, the curve's temperature, that component's permeance).  No     *)
(* point is dropped, merged, reordered or re-weighted - whatever its value. *)
(***************************************************************************)
EXTENDS Integers, Sequences
CONSTANTS Add(_,_), Sub(_,_), Mul(_,_), Div(_,_), Dec(_),
          Dev     \* "none", or a NAMED wrong design: "sorted" (points ordered by composition), "dedupe" (a point equal in (x, T) to
                  \* its predecessor is dropped), "raw_x" (the fraction is taken in the basis it was stated in),
                  \* "drop_zero" (points with permeance 0 are left out)
One == Dec("1")
ToWeight(x, xtype, M1, M2) == IF xtype = "weight" \/ Dev = "raw_x" THEN x
                              ELSE Div(Mul(M1, x), Add(Mul(M1, x), Mul(M2, Sub(One, x))))
Point(c, j, comp, M1, M2) == [x |-> ToWeight(c.pts[j].x, c.pts[j].xtype, M1, M2), t |-> c.T, p |-> c.pts[j].P[comp]]
OfCurve(c, comp, M1, M2) == [j \in 1..Len(c.pts) |-> Point(c, j, comp, M1, M2)]
\* (recursive FUNCTIONS, not RECURSIVE operators: readable by tlapm)
Concat(cs, comp, M1, M2) == LET f[k \in 0..Len(cs)] == IF k = 0 THEN <<>> ELSE f[k - 1] \o OfCurve(cs[k], comp, M1, M2)
                            IN f[Len(cs)]
Filter(s, keep(_)) == LET f[k \in 0..Len(s)] == IF k = 0 THEN <<>> ELSE IF keep(k) THEN Append(f[k - 1], s[k]) ELSE f[k - 1]
                      IN f[Len(s)]
OfSet(cs, comp, M1, M2) ==
  LET all == Concat(cs, comp, M1, M2)
  IN CASE Dev = "dedupe"    -> Filter(all, LAMBDA k : k = 1 \/ all[k].x # all[k - 1].x \/ all[k].t # all[k - 1].t)
       [] Dev = "drop_zero" -> Filter(all, LAMBDA k : all[k].p # Dec("0"))
       [] Dev = "sorted"    -> IF Len(all) >= 2 /\ all[1].x # all[2].x THEN <<all[2], all[1]>> \o SubSeq(all, 3, Len(all)) ELSE all
       [] OTHER             -> all
Total(cs) == LET f[k \in 0..Len(cs)] == IF k = 0 THEN 0 ELSE f[k - 1] + Len(cs[k].pts) IN f[Len(cs)]

(* ------------------------------ properties ------------------------------ *)
\* one measurement per supplied point
Complete(cs, comp, M1, M2) == Len(OfSet(cs, comp, M1, M2)) = Total(cs)
\* the set stated in the other basis (the same physical points) yields the same measurements
SameSeq(a, b, EqF(_,_)) == Len(a) = Len(b) /\ \A j \in 1..Len(a) : EqF(a[j].x, b[j].x) /\ a[j].t = b[j].t /\ a[j].p = b[j].p
=============================================================================
