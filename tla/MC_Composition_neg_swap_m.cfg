SPECIFICATION Spec
CONSTANT Deviation = "swap_m"
INVARIANT Inv_RoundTrip
INVARIANT Inv_FixesEnds
INVARIANT Inv_SumOne
INVARIANT Inv_RatioLaw
INVARIANT Inv_Monotone
INVARIANT Inv_Valid
PROPERTY StepIsConvRel
CHECK_DEADLOCK FALSE
