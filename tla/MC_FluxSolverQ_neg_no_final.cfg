SPECIFICATION Spec
CONSTANT Bounded = TRUE
CONSTANT MaxIter = 60
CONSTANT Deviation = "no_final"
INVARIANT Inv_Law
INVARIANT Inv_ExitBelow
INVARIANT Inv_Bounded
INVARIANT Inv_VacuumExact
INVARIANT Inv_PPIdentity
INVARIANT Inv_FunctionAgrees
INVARIANT Inv_Homogeneous
PROPERTY Terminates
PROPERTY Refines
CHECK_DEADLOCK FALSE
