-------------------------- MODULE FluxLoopAbstract --------------------------
(***************************************************************************)
(* The flux loop with everything numeric abstracted away: each iteration    *)
(* either produces a change below the precision ("small") or not ("big"),   *)
(* or an invalid composition (raise).  Whatever the map, a bounded loop     *)
(* terminates after at most MaxIter iterations; an unbounded one need not   *)
(* (its counter is kept modulo 2 so that the state space stays finite and   *)
(* an endless iteration is a genuine cycle, not a stuttering step).         *)
(***************************************************************************)
EXTENDS Integers
CONSTANTS Bounded, MaxIter
VARIABLES dcls, n, pc
avars == <<dcls, n, pc>>

AInit == dcls = "big" /\ n = 0 /\ pc \in {"start"}
ASeed == pc = "start" /\ pc' \in {"loop", "raised"} /\ UNCHANGED <<dcls, n>>
AIterate == /\ pc = "loop" /\ dcls = "big" /\ (Bounded => n < MaxIter)
            /\ \/ (dcls' \in {"big", "small"} /\ n' = (IF Bounded THEN n + 1 ELSE (n + 1) % 2) /\ pc' = pc)
               \/ (pc' = "raised" /\ UNCHANGED <<dcls, n>>)
AGiveUp == Bounded /\ pc = "loop" /\ dcls = "big" /\ n >= MaxIter /\ pc' = "raised" /\ UNCHANGED <<dcls, n>>
AExit == pc = "loop" /\ dcls = "small" /\ pc' = "returned" /\ UNCHANGED <<dcls, n>>
ANext == ASeed \/ AIterate \/ AGiveUp \/ AExit
ASpec == AInit /\ [][ANext]_avars /\ WF_avars(ANext)

ADone == pc \in {"returned", "raised"}
Terminates == <>ADone
BoundedEvaluations == Bounded => n <= MaxIter
=============================================================================
