------------------------------ MODULE LoaderApa ------------------------------
(* Typed copy of Loader.tla for Apalache, without the bound on the number of operations: the action properties are  *)
(* checked on one step from an arbitrary type-correct state (any directory, any last operation), so they hold for    *)
(* edit/load histories of any length.                                                                                *)
EXTENDS Integers, FiniteSets
CONSTANTS
  \* @type: Set(Str);
  EntryNames,
  \* @type: Bool;
  MkdirFirst
VARIABLES
  \* @type: { csv: Str, hasSets: Bool, entries: Str -> Str, results: Bool };
  fs,
  \* @type: { op: Str, outcome: Str, hasIE: Bool, sets: Set(Str) };
  last

Kinds == {"good", "badcols", "skip"}
CInit == EntryNames = {"s1", "s2", "s3"} /\ MkdirFirst = FALSE
CInitNeg == EntryNames = {"s1", "s2", "s3"} /\ MkdirFirst = TRUE

\* @type: ({ csv: Str, hasSets: Bool, entries: Str -> Str, results: Bool }) => Set(Str);
Loadable(f) == {e \in DOMAIN f.entries : f.entries[e] # "skip"}
BadEntry(f) == \E e \in Loadable(f) : f.entries[e] = "badcols"
Outcome(f) == IF f.csv = "badcols" THEN "raise_columns"
              ELSE IF f.hasSets /\ BadEntry(f) THEN "raise_columns"
              ELSE IF f.csv = "absent" /\ Loadable(f) = {} THEN "raise_nothing"
              ELSE "ok"
After(f) == IF Outcome(f) = "ok" \/ MkdirFirst THEN [f EXCEPT !.results = TRUE] ELSE f

NoObj(op) == [op |-> op, outcome |-> "", hasIE |-> FALSE, sets |-> {}]
AInit == /\ fs = [csv |-> "absent", hasSets |-> FALSE, entries |-> [e \in {} |-> "good"], results |-> FALSE]
         /\ last = NoObj("none")
APutCsv(k) == fs' = [fs EXCEPT !.csv = k] /\ last' = NoObj("edit")
ADropCsv == fs.csv # "absent" /\ fs' = [fs EXCEPT !.csv = "absent"] /\ last' = NoObj("edit")
AMkSets == ~fs.hasSets /\ fs' = [fs EXCEPT !.hasSets = TRUE] /\ last' = NoObj("edit")
APutEntry(e, k) == /\ fs.hasSets
                   /\ fs' = [fs EXCEPT !.entries = [x \in DOMAIN fs.entries \cup {e} |-> IF x = e THEN k ELSE fs.entries[x]]]
                   /\ last' = NoObj("edit")
ADropEntry(e) == /\ e \in DOMAIN fs.entries
                 /\ fs' = [fs EXCEPT !.entries = [x \in DOMAIN fs.entries \ {e} |-> fs.entries[x]]]
                 /\ last' = NoObj("edit")
ALoad == /\ fs' = After(fs)
         /\ last' = [op |-> "load", outcome |-> Outcome(fs), hasIE |-> fs.csv = "ok", sets |-> Loadable(fs)]
ANext == \/ \E k \in {"ok", "badcols"} : APutCsv(k)
         \/ ADropCsv \/ AMkSets
         \/ \E e \in EntryNames, k \in Kinds : APutEntry(e, k)
         \/ \E e \in EntryNames : ADropEntry(e)
         \/ ALoad

TypeOK == /\ \E S \in SUBSET EntryNames : fs \in [csv : {"absent", "ok", "badcols"}, hasSets : BOOLEAN, entries : [S -> Kinds], results : BOOLEAN]
          /\ (fs.hasSets \/ DOMAIN fs.entries = {})
          /\ last \in [op : {"none", "edit", "load"}, outcome : {"", "ok", "raise_columns", "raise_nothing"}, hasIE : BOOLEAN, sets : SUBSET EntryNames]
\* what the last load returned describes the directory as it still is (needed for idempotence)
IndInv == /\ TypeOK
          /\ (last.op = "load" /\ last.outcome = "ok") =>
                (/\ Outcome(fs) = "ok" /\ fs.results /\ last.hasIE = (fs.csv = "ok") /\ last.sets = Loadable(fs)
                 /\ (last.hasIE \/ last.sets # {}))
LoadOnlyAddsResultsA == (last'.op = "load") => /\ [fs' EXCEPT !.results = fs.results] = fs
                                               /\ (fs'.results # fs.results => last'.outcome = "ok")
LoadIdempotentA == (last.op = "load" /\ last.outcome = "ok" /\ last'.op = "load") =>
                      (last'.outcome = "ok" /\ last'.hasIE = last.hasIE /\ last'.sets = last.sets /\ fs' = fs)
=============================================================================
