-------------------------- MODULE Trace_Composition --------------------------
(***************************************************************************)
(* Leg B for C15: conversion chains recorded from the real Composition      *)
(* class are behaviours of the Composition specification (IEEE doubles),    *)
(* and every clause of C15 holds at every recorded state.                   *)
(* Lines: {t, i, ev} + New{M1, M2, close, a, b} | Conv{to, a, b}            *)
(*        | Construct{p, type, raised}                                      *)
(***************************************************************************)
EXTENDS Integers, Sequences, TLC, F64, F64Json, IOUtils

Trace == F64NdJson(IOEnv.TRACE_FILE)
Tol   == Lit("1e-12")
EqTol(x, y, scale) == FCloseS(x, y, scale, Tol)

C == INSTANCE Composition WITH Add <- FAdd, Sub <- FSub, Mul <- FMul, Div <- FDiv,
                               Lt <- FLt, Le <- FLe, Eq <- EqTol, Dec <- Lit

VARIABLE l
Starts == {j \in 1..Len(Trace) : Trace[j].i = 0}
Init == l \in Starts
Next == l < Len(Trace) /\ Trace[l + 1].i > 0 /\ l' = l + 1
Spec == Init /\ [][Next]_l

E   == Trace[l]
O   == Trace[l - E.i]            \* the New event of this chain
Pre == Trace[l - 1]
\* the conditioning of the conversions: |d to / d from| <= max(M1/M2, M2/M1)
Cond == FMax(FDiv(O.M1, O.M2), FDiv(O.M2, O.M1))
IsChain == E.ev \in {"New", "Conv"}

KnownEvent == E.ev \in {"New", "Conv", "Construct", "ConvRaised", "Foreign"}
\* the conversion is total on valid compositions (it fixes 0 and 1, so it cannot leave [0,1])
Cl_ConversionTotal == E.ev # "ConvRaised"

\* --- the recorded step is a step of the specification
Step_Conv == (E.ev = "Conv") =>
               /\ C!ConvRel(Pre.a, E.to, E.a, O.M1, O.M2, C!One)
               /\ C!ConvRel(Pre.b, E.to, E.b, O.M1, O.M2, C!One)

\* --- clauses of C15 at every recorded state
\* yardstick of the round trip: the fraction itself (relative accuracy for trace fractions; next to 1 this is absolute accuracy)
Cl_RoundTrip == IsChain => C!RoundTrip(O.a, E.a, FMul(Cond, O.a.p)) /\ C!RoundTrip(O.b, E.b, FMul(Cond, O.b.p))
Cl_FixesEnds == IsChain => C!FixesEnds(O.a, E.a) /\ C!FixesEnds(O.b, E.b)
Cl_SumOne    == IsChain => /\ C!SumOne(E.a, E.a.first, E.a.second, C!One)
                           /\ C!SumOne(E.b, E.b.first, E.b.second, C!One)
\* one ulp of a fraction p next to 1 is a relative error of ulp / (1 - p) of its complement
RatioCond(o, c) == FAdd(Lit("1.0"), FAdd(FDiv(Lit("1e-3"), FSub(Lit("1.0"), o.p)), FDiv(Lit("1e-3"), FSub(Lit("1.0"), c.p))))
Cl_RatioLaw  == IsChain => /\ C!RatioLaw(O.a, E.a, O.M1, O.M2, C!One)
                           /\ C!RatioLaw(O.b, E.b, O.M1, O.M2, C!One)
                           /\ C!RatioLawRel(O.a, E.a, O.M1, O.M2, RatioCond(O.a, E.a))
                           /\ C!RatioLawRel(O.b, E.b, O.M1, O.M2, RatioCond(O.b, E.b))
\* strictly increasing; for arguments only a few ulps (or less than the conditioning allows)
\* apart the images may coincide or differ in the last places, but must not be reordered visibly
Cl_Monotone  == IsChain => IF O.close THEN C!MonotoneWeak(E.a, E.b) \/ EqTol(E.a.p, E.b.p, Cond)
                                      ELSE C!Monotone(E.a, E.b)
\* a conversion result converted onwards under another mixture, or after its fraction was re-assigned: the ratio law of the
\* mixture and the value given now
Cl_ForeignResult == (E.ev = "Foreign") =>
                      /\ ~E.raised /\ E.out.type = E.to
                      /\ C!RatioLaw(E.src, E.out, E.M1, E.M2, C!One)
                      /\ C!RatioLawRel(E.src, E.out, E.M1, E.M2, RatioCond(E.src, E.out))
Cl_RejectsOutside == (E.ev = "Construct") => (E.raised <=> ~C!Valid(E.p))
=============================================================================
