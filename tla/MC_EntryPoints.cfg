SPECIFICATION Spec
CONSTANT Deviation = "none"
INVARIANT SameFluxes
INVARIANT ModelHonoured
CHECK_DEADLOCK FALSE
