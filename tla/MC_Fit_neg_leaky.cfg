SPECIFICATION Spec
CONSTANT Leaky = TRUE
CONSTANT MaxOrder = 1
CONSTANT MaxCalls = 3
PROPERTY DataUnchanged
INVARIANT Deterministic
INVARIANT BestOfGrid
CHECK_DEADLOCK FALSE
