------------------------------ MODULE Membrane ------------------------------
(***************************************************************************)
(* Ideal-experiment membrane (pyvaporation/membrane/membrane.py).           *)
(* exps: the experiments of ONE component, in file order, each              *)
(*   [T |-> K, P |-> permeance in kg/(m2 h kPa), hasEa |-> BOOLEAN,         *)
(*    Ea |-> stated activation energy J/mol (meaningful when hasEa)]        *)
(* Results that may raise are records [raise |-> BOOLEAN, v |-> number].    *)
(***************************************************************************)
EXTENDS Integers, Sequences
CONSTANTS Add(_,_), Sub(_,_), Mul(_,_), Div(_,_), Lt(_,_), Le(_,_), Eq(_,_,_), Dec(_),
          Exp(_), Ln(_), Pow10(_), Num(_)

Zero == Dec("0")
One  == Dec("1")
R    == Dec("8.314462")
Neg(x) == Sub(Zero, x)
Abs(x) == IF Lt(x, Zero) THEN Neg(x) ELSE x
Ok(v) == [raise |-> FALSE, v |-> v]
Raise == [raise |-> TRUE, v |-> Zero]

\* index of the experiment nearest in temperature (the first one on ties: Python's min)
RECURSIVE NearestFrom(_, _, _, _)
NearestFrom(exps, T, j, best) ==
  IF j > Len(exps) THEN best
  ELSE NearestFrom(exps, T, j + 1,
                   IF Lt(Abs(Sub(exps[j].T, T)), Abs(Sub(exps[best].T, T))) THEN j ELSE best)
Nearest(exps, T) == NearestFrom(exps, T, 2, 1)

\* least-squares slope of y = ln P against x = 1/T
RECURSIVE SumOver(_, _, _)
SumOver(F(_), n, j) == IF j > n THEN Zero ELSE Add(F(j), SumOver(F, n, j + 1))
RegressionEa(exps) ==
  LET n  == Len(exps)
      X(j) == Div(One, exps[j].T)
      Y(j) == Ln(exps[j].P)
      xm == Div(SumOver(X, n, 1), Num(n))
      ym == Div(SumOver(Y, n, 1), Num(n))
      Sxy(j) == Mul(Sub(X(j), xm), Sub(Y(j), ym))
      Sxx(j) == Mul(Sub(X(j), xm), Sub(X(j), xm))
  IN Neg(Mul(Div(SumOver(Sxy, n, 1), SumOver(Sxx, n, 1)), R))

\* calculate_activation_energy
ActivationEnergy(exps) ==
  IF Len(exps) < 2 THEN (IF exps[1].hasEa THEN Ok(exps[1].Ea) ELSE Raise)
  ELSE Ok(RegressionEa(exps))

ArrheniusFactor(Ea, T, T0) == Exp(Mul(Div(Neg(Ea), R), Sub(Div(One, T), Div(One, T0))))

\* get_permeance(T) without initial_permeance
Permeance(exps, T) ==
  LET k == Nearest(exps, T)
      e == exps[k]
  IN IF e.T = T THEN Ok(e.P)
     ELSE IF ~e.hasEa
          THEN (IF ActivationEnergy(exps).raise THEN Raise
                ELSE Ok(Mul(e.P, ArrheniusFactor(ActivationEnergy(exps).v, T, e.T))))
          ELSE Ok(Mul(e.P, ArrheniusFactor(e.Ea, T, e.T)))

(* ------------------------------ clauses of C12 --------------------------- *)
\* p: result of get_permeance(T); ea: result of the public calculate_activation_energy
AtExperiment(exps, T, p) == \A j \in 1..Len(exps) : (exps[j].T = T) => (~p.raise /\ Eq(p.v, exps[j].P, exps[j].P))
ArrheniusLaw(exps, T, p, ea) ==
  LET e == exps[Nearest(exps, T)]
  IN (e.T # T) =>
       IF e.hasEa THEN ~p.raise /\ Eq(p.v, Mul(e.P, ArrheniusFactor(e.Ea, T, e.T)), p.v)
       ELSE IF ea.raise THEN p.raise
       ELSE ~p.raise /\ Eq(p.v, Mul(e.P, ArrheniusFactor(ea.v, T, e.T)), p.v)
\* the regressed activation energy is the least-squares slope; its conditioning is carried by scale
RegressionLaw(exps, ea, scale) ==
  (Len(exps) >= 2) => ~ea.raise /\ Eq(ea.v, RegressionEa(exps), scale)
\* selectivities: molar = mass-based * M2/M1
SelectivityLaw(selMolar, selWeight, M1, M2, scale) == Eq(Mul(selMolar, M1), Mul(selWeight, M2), scale)
SelectivityDef(selWeight, p1, p2, scale) == Eq(Mul(selWeight, p2), p1, scale)
\* pure-component flux = permeance * (Psat(T) - permeate-side pressure)
PureFlux(flux, p, psatFeed, pPerm, scale) == Eq(flux, Mul(p, Sub(psatFeed, pPerm)), scale)
=============================================================================
