SPECIFICATION SimSpec
CONSTANT Entries <- EntrySet
CONSTANT Objects <- ObjectSet
CONSTANT Impure = {}
CONSTANT MaxCalls = 2
CHECK_DEADLOCK FALSE
