------------------------------ MODULE Activity ------------------------------
(***************************************************************************)
(* Activity-coefficient models and partial pressures of a binary mixture    *)
(* (pyvaporation/mixtures/mixture.py: calculate_activity_coefficients,      *)
(* get_partial_pressures).  x is the MOLE fraction of the first component.  *)
(*   nrtl = [g12, g21, al12, al21, a12, a21]   (al21 = al12 when the code's *)
(*          alpha21 is None)                                                *)
(*   uq   = [alpha_12, alpha_21, beta_12, beta_21, z],  ci = [r, q, qi]     *)
(* UNIQUAC gamma_2 exists twice: the correct mirror image of gamma_1 and    *)
(* the formula as implemented (known finding D3: the residual bracket is    *)
(* mistyped), a NAMED deviation of the specification.                       *)
(***************************************************************************)
CONSTANTS Add(_,_), Sub(_,_), Mul(_,_), Div(_,_), Lt(_,_), Le(_,_), Eq(_,_,_), Dec(_),
          Exp(_), Ln(_), Pow10(_)

Zero == Dec("0")
One  == Dec("1")
Two  == Dec("2")
R    == Dec("8.314462")
Sq(x) == Mul(x, x)
Neg(x) == Sub(Zero, x)

(* ------------------------------- NRTL ---------------------------------- *)
NRTL(n, T, x1) ==
  LET x2  == Sub(One, x1)
      t12 == Add(n.a12, Div(n.g12, Mul(R, T)))
      t21 == Add(n.a21, Div(n.g21, Mul(R, T)))
      G12 == Exp(Mul(Neg(t12), n.al12))
      G21 == Exp(Mul(Neg(t21), n.al21))
      lg1 == Mul(Sq(x2), Add(Mul(t21, Sq(Div(G21, Add(x1, Mul(x2, G21))))),
                             Div(Mul(t12, G12), Sq(Add(x2, Mul(x1, G12))))))
      lg2 == Mul(Sq(x1), Add(Mul(t12, Sq(Div(G12, Add(x2, Mul(x1, G12))))),
                             Div(Mul(t21, G21), Sq(Add(x1, Mul(x2, G21))))))
  IN <<Exp(lg1), Exp(lg2)>>

(* ------------------------------ UNIQUAC -------------------------------- *)
\* the code replaces an exactly pure composition by 1e-5 / 0.99999
UQx(x1) == IF x1 = Zero THEN Dec("0.00001") ELSE IF Sub(One, x1) = Zero THEN Dec("0.99999") ELSE x1

UQParts(u, c1, c2, T, xin) ==
  LET x1 == UQx(xin)
      x2 == Sub(One, x1)
      phiS == Add(Mul(x1, c1.r), Mul(x2, c2.r))
      thgS == Add(Mul(x1, c1.q), Mul(x2, c2.q))
      thiS == Add(Mul(x1, c1.qi), Mul(x2, c2.qi))
      z2   == Div(u.z, Two)
  IN [x1 |-> x1, x2 |-> x2,
      phi1 |-> Div(Mul(x1, c1.r), phiS), phi2 |-> Div(Mul(x2, c2.r), phiS),
      thg1 |-> Div(Mul(x1, c1.q), thgS), thg2 |-> Div(Mul(x2, c2.q), thgS),
      thi1 |-> Div(Mul(x1, c1.qi), thiS), thi2 |-> Div(Mul(x2, c2.qi), thiS),
      z2 |-> z2,
      l1 |-> Sub(Mul(z2, Sub(c1.r, c1.q)), Sub(c1.r, One)),
      l2 |-> Sub(Mul(z2, Sub(c2.r, c2.q)), Sub(c2.r, One)),
      t12 |-> Exp(Div(Neg(Add(u.alpha_12, Div(u.beta_12, T))), T)),
      t21 |-> Exp(Div(Neg(Add(u.alpha_21, Div(u.beta_21, T))), T))]

UQGamma1(p, c1, c2) ==
  Exp(Add(Add(Sub(Add(Add(Ln(Div(p.phi1, p.x1)),
                          Mul(Mul(p.z2, c1.q), Ln(Div(p.thg1, p.phi1)))),
                      Mul(p.phi2, Sub(p.l1, Mul(Div(c1.r, c2.r), p.l2)))),
                  Mul(c1.qi, Ln(Add(p.thi1, Mul(p.thi2, p.t21))))),
              Zero),
          Mul(Mul(p.thi2, c1.qi),
              Sub(Div(p.t21, Add(p.thi1, Mul(p.thi2, p.t21))),
                  Div(p.t12, Add(p.thi2, Mul(p.thi1, p.t12)))))))

\* gamma_2 as the mirror image of gamma_1 (Abrams & Prausnitz)
UQGamma2(p, c1, c2) ==
  Exp(Add(Sub(Add(Add(Ln(Div(p.phi2, p.x2)),
                      Mul(Mul(p.z2, c2.q), Ln(Div(p.thg2, p.phi2)))),
                  Mul(p.phi1, Sub(p.l2, Mul(Div(c2.r, c1.r), p.l1)))),
              Mul(c2.qi, Ln(Add(p.thi2, Mul(p.thi1, p.t12))))),
          Mul(Mul(p.thi1, c2.qi),
              Sub(Div(p.t12, Add(p.thi2, Mul(p.thi1, p.t12))),
                  Div(p.t21, Add(p.thi1, Mul(p.thi2, p.t21)))))))

\* NAMED DEVIATION D3: gamma_2 as implemented (mixture.py, residual bracket)
UQGamma2_AsImplemented(p, c1, c2) ==
  Exp(Add(Sub(Add(Add(Ln(Div(p.phi2, p.x2)),
                      Mul(Mul(p.z2, c2.q), Ln(Div(p.thg2, p.phi2)))),
                  Mul(p.phi1, Sub(p.l2, Mul(Div(c2.r, c1.r), p.l1)))),
              Mul(c2.qi, Ln(Add(p.thi2, Mul(p.thi1, p.t12))))),
          Mul(Mul(p.thi1, c2.qi),
              Sub(Div(p.t12, Add(p.thi2, Mul(p.thi1, p.t21))),
                  Div(p.t12, Add(p.thi1, Mul(p.thi2, p.t12)))))))

UNIQUAC(u, c1, c2, T, x1) ==
  LET p == UQParts(u, c1, c2, T, x1) IN <<UQGamma1(p, c1, c2), UQGamma2(p, c1, c2)>>
UNIQUAC_AsImplemented(u, c1, c2, T, x1) ==
  LET p == UQParts(u, c1, c2, T, x1) IN <<UQGamma1(p, c1, c2), UQGamma2_AsImplemented(p, c1, c2)>>

\* mix = [nrtl, uq, c1, c2, M1, M2, vp1, vp2]; variant in {"NRTL","UNIQUAC","UNIQUAC_AsImplemented"}
Gammas(mix, variant, T, x1) ==
  IF variant = "NRTL" THEN NRTL(mix.nrtl, T, x1)
  ELSE IF variant = "UNIQUAC" THEN UNIQUAC(mix.uq, mix.c1, mix.c2, T, x1)
  ELSE UNIQUAC_AsImplemented(mix.uq, mix.c1, mix.c2, T, x1)

(* --------------------------- clauses of C04 ----------------------------- *)
\* central differences of ln f on a stencil s = <<f(x-2h), f(x-h), f(x), f(x+h), f(x+2h)>>
D1(s, h) == Div(Sub(Ln(s[4]), Ln(s[2])), Mul(Two, h))                 \* step h:  error ~ h^2 f3/6
D2(s, h) == Div(Sub(Ln(s[5]), Ln(s[1])), Mul(Dec("4"), h))            \* step 2h: error ~ 4 h^2 f3/6
DLn(s, h) == Div(Sub(Mul(Dec("4"), D1(s, h)), D2(s, h)), Dec("3"))     \* Richardson: error ~ h^4
Abs(x) == IF Lt(x, Zero) THEN Neg(x) ELSE x
Max(x, y) == IF Lt(x, y) THEN y ELSE x
\* Gibbs-Duhem: x1 dln(g1)/dx1 + x2 dln(g2)/dx1 = 0.  The residual is measured against the size of
\* its two terms (floor 0.01) through Eq, after allowing a tenth of the observed step-h / step-2h
\* discrepancy (the truncation error of the extrapolated difference is (h/L)^2 times that discrepancy).
GibbsDuhem(x1, s1, s2, h) ==
  LET x2 == Sub(One, x1)
      a == Mul(x1, DLn(s1, h))
      b == Mul(x2, DLn(s2, h))
      trunc == Mul(Dec("0.1"), Add(Mul(x1, Abs(Sub(D1(s1, h), D2(s1, h)))), Mul(x2, Abs(Sub(D1(s2, h), D2(s2, h))))))
      res == Abs(Add(a, b))
  IN \/ Le(res, trunc)
     \/ Eq(Sub(res, trunc), Zero, Max(Add(Abs(a), Abs(b)), Dec("0.01")))
\* gamma_i -> 1 as component i becomes pure: the distance from 1 at 1e-8 from purity is negligible or
\* at least 10 times smaller than the larger of the distances at 1e-4 and 1e-6 (any convergence to 1,
\* even with a sign change on the way, passes; a limit other than 1 leaves the distances equal)
PureLimit(g4, g6, g8) ==
  Le(Abs(Sub(g8, One)), Max(Dec("1e-10"), Mul(Dec("0.1"), Max(Abs(Sub(g4, One)), Abs(Sub(g6, One))))))
\* p_i = x_i gamma_i Psat_i
PartialPressure(p, x, g, psat) == Eq(p, Mul(Mul(psat, g), x), p)
=============================================================================
