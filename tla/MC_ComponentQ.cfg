SPECIFICATION Spec
CONSTANT Deviation = "none"
INVARIANT Inv_Additive
INVARIANT Inv_Integral
INVARIANT Inv_Antisym
INVARIANT Inv_Zero
INVARIANT Inv_Derivative
CHECK_DEADLOCK FALSE
