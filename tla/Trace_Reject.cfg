SPECIFICATION Spec
INVARIANT KnownEvent
INVARIANT Cl_RowIsInvalid
INVARIANT Cl_RejectsInvalid
INVARIANT Ref_ControlAccepted
CHECK_DEADLOCK FALSE
