SPECIFICATION Spec
INVARIANT KnownEvent
INVARIANT Cl_RoundTripCurveViaMembrane
INVARIANT Cl_ReloadIsMassFraction
INVARIANT Ref_LoadOutcome
INVARIANT Ref_LoadObject
INVARIANT Ref_LoadOnlyAddsResults
INVARIANT Ref_MatchesSpecBehaviour
INVARIANT Ref_LoadIdempotent
INVARIANT Ref_ExperimentsRoundTrip
CHECK_DEADLOCK FALSE
