SPECIFICATION Spec
CONSTANT Deviation = "none"
INVARIANT Inv_Scales
INVARIANT Inv_Rebased
INVARIANT Inv_AtCurveTemperature
CHECK_DEADLOCK FALSE
