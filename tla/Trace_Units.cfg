SPECIFICATION Spec
INVARIANT KnownEvent
INVARIANT Step_New
INVARIANT Step_Conv
INVARIANT Cl_PathIndependent
INVARIANT Cl_Invertible
INVARIANT Cl_Linear
INVARIANT Cl_NonNegative
INVARIANT Cl_Identity
INVARIANT Cl_Raises
INVARIANT Cl_Factors
CHECK_DEADLOCK FALSE
