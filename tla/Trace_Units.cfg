SPECIFICATION Spec
INVARIANT KnownEvent
INVARIANT Cl_PathIndependent
INVARIANT Cl_Invertible
INVARIANT Cl_Linear
INVARIANT Cl_NonNegative
INVARIANT Cl_Identity
INVARIANT Cl_Raises
INVARIANT Cl_CrossComponent
INVARIANT Cl_SameObjectTwice
INVARIANT Cl_Factors
INVARIANT Step_New
INVARIANT Step_Conv
CHECK_DEADLOCK FALSE
