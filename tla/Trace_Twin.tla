------------------------------ MODULE Trace_Twin ------------------------------
(***************************************************************************)
(* Leg B for C06, C07 and C11: twin executions of the real code.            *)
(*  process level: TwinStart{rel, kfac, kind, mode, model, hasProg, d3, a, b}*)
(*                 Pair{k, a, b}  one reported step of both runs             *)
(*                 Metrics{sf_a, sf_b, sel_a, sel_b, psi_a, psi_b}           *)
(*                 TwinEnd{a_outcome, b_outcome}                            *)
(*  function level: FnTwin{rel, model, mode, d3, gamma, pp, J, Jm, y, sf,    *)
(*                 curve, msel} each [ok, same_exc, a, b]                    *)
(* d3: gammas of the code for the mixture and its relabelled twin at three  *)
(* points (used only to recognise the known finding D3).                    *)
(***************************************************************************)
EXTENDS Integers, Sequences, TLC, F64, F64Json, IOUtils

Trace == F64NdJson(IOEnv.TRACE_FILE)
EqR(a, b, s) == FCloseS(a, b, s, Lit("1e-9"))
Tw == INSTANCE Twin WITH Add <- FAdd, Sub <- FSub, Mul <- FMul, Div <- FDiv, Lt <- FLt, Le <- FLe, Eq <- EqR, Dec <- Lit

VARIABLE l
Starts == {j \in 1..Len(Trace) : Trace[j].i = 0}
Init == l \in Starts
Next == l < Len(Trace) /\ Trace[l + 1].i > 0 /\ l' = l + 1
Spec == Init /\ [][Next]_l
E == Trace[l]
O == Trace[l - E.i]
Rel == O.rel

KnownEvent == E.ev \in {"TwinStart", "Pair", "Metrics", "TwinEnd", "FnTwin", "CurveTwin", "MeasTwin"}

\* known finding D3: under UNIQUAC the code's gamma_2 is not the mirror image of gamma_1
GammaAsymmetric(d3) == \E j \in 1..Len(d3) : ~Tw!Swapped2(d3[j].ga, d3[j].gb)
D3_Excuses == O.rel = "swap" /\ O.model = "UNIQUAC" /\ GammaAsymmetric(O.d3)
AllFinite(r) == /\ FIsFinite(r.m) /\ FIsFinite(r.x) /\ FIsFinite(r.T) /\ FIsFinite(r.J1) /\ FIsFinite(r.J2)
                /\ FIsFinite(r.Qevap) /\ FIsFinite(r.Qcond)

(* ------------------------------ process level ------------------------------ *)
PairStrict == IF Rel = "dtonly" THEN (E.k = 0 => Tw!Step0Fluxes(E.a, E.b))
              ELSE Tw!StepRel(Rel, O.kfac, E.a, E.b) /\ (E.a.hasQcond <=> E.b.hasQcond)
Cl_PairRel == (E.ev = "Pair" /\ AllFinite(E.a) /\ AllFinite(E.b)) => (PairStrict \/ D3_Excuses)
Cl_ReportsMassFraction == (E.ev = "Pair") => E.a.xtype = "weight" /\ E.b.xtype = "weight"
SeqRel(sa, sb, R(_, _)) == Len(sa) = Len(sb) /\ \A j \in 1..Len(sa) : R(sa[j], sb[j])
SameV(a, b) == EqR(a, b, a)
\* ratios built from 1 - y lose eps / min(y, 1 - y) of relative accuracy: tolerance 1e-9 + 1e-15 / min(y, 1 - y)
Cond(yy) == FAdd(Lit("1.0"), FDiv(Lit("1e-6"), FMax(FMin(yy, FSub(Lit("1.0"), yy)), Lit("1e-300"))))
\* (a permeance clamped to 0 makes a selectivity infinite: products with 0 or inf are not asserted)
Usable2(a, b) == FIsFinite(a) /\ FIsFinite(b) /\ ~FEqNum(a, Lit("0.0")) /\ ~FEqNum(b, Lit("0.0"))
InverseC(a, b, yy) == Usable2(a, b) => EqR(FMul(a, b), Lit("1.0"), Cond(yy))
InverseU(a, b) == Usable2(a, b) => Tw!Inverse(a, b)
SameC(a, b, yy) == EqR(a, b, FMul(FAbs(a), Cond(yy)))
MetricsStrict == IF Rel = "swap" THEN /\ Len(E.sf_a) = Len(E.sf_b)
                                      /\ \A j \in 1..Len(E.sf_a) : InverseC(E.sf_a[j], E.sf_b[j], E.y_a[j])
                                      /\ SeqRel(E.sel_a, E.sel_b, InverseU)
                 ELSE IF Rel = "dtonly" THEN TRUE
                 ELSE /\ Len(E.sf_a) = Len(E.sf_b)
                      /\ \A j \in 1..Len(E.sf_a) : SameC(E.sf_a[j], E.sf_b[j], E.y_a[j]) /\ SameC(E.psi_a[j], E.psi_b[j], E.y_a[j])
                      /\ SeqRel(E.sel_a, E.sel_b, SameV)
Cl_MetricsRel == (E.ev = "Metrics") => (MetricsStrict \/ D3_Excuses)
Ref_TwinOutcome == (E.ev = "TwinEnd") => E.a_outcome = E.b_outcome
\* scaling area and feed by a power of two is exact in binary floating point: the scaled run is the same computation, so it
\* returns exactly when the original does (a run that returned has a scaled twin with results to compare)
\* (the same holds for the area / step-length trade without a programme: (J A k)(dt / k) is the very same product)
Cl_ScaleOutcome == (E.ev = "TwinEnd" /\ O.level = "process" /\ O.kpow2 /\ (O.rel = "scale" \/ (O.rel = "trade" /\ ~O.hasProg)))
                     => E.a_outcome = E.b_outcome

(* ------------------------------ function level ----------------------------- *)
Fn(f) == f.ok                                \* both calls returned
Pair2(f) == IF Rel = "swap" THEN Tw!Swapped2(f.a, f.b) ELSE Tw!Same2(f.a, f.b)
Frac(f)  == IF Rel = "swap" THEN Tw!Complement(f.a, f.b) ELSE EqR(f.a, f.b, Lit("1.0"))
Ratio(f) == IF Rel = "swap" THEN InverseU(f.a, f.b) ELSE EqR(f.a, f.b, f.a)
RatioC(f, yy) == IF Rel = "swap" THEN InverseC(f.a, f.b, yy) ELSE SameC(f.a, f.b, yy)
\* a feed with a trace of one component: the double nearest to "1 - 1e-8" carries a relative error of 1e-16 / 1e-8 in its complement,
\* so the two statements of the feed are the same state only to that accuracy - the separation factor inherits it
CondX(yy, xx) == FAdd(Cond(yy), FDiv(Lit("1e-6"), FMax(FMin(xx, FSub(Lit("1.0"), xx)), Lit("1e-300"))))
RatioCX(f, yy, xx) == IF Rel = "swap" THEN (Usable2(f.a, f.b) => EqR(FMul(f.a, f.b), Lit("1.0"), CondX(yy, xx)))
                      ELSE EqR(f.a, f.b, FMul(FAbs(f.a), CondX(yy, xx)))
CurveRel(c) ==
  /\ Len(c.a.J) = Len(c.b.J)
  /\ \A j \in 1..Len(c.a.J) :
       /\ (IF Rel = "swap" THEN Tw!Swapped2(c.a.J[j], c.b.J[j]) /\ Tw!Swapped2(c.a.P[j], c.b.P[j])
           ELSE Tw!Same2(c.a.J[j], c.b.J[j]) /\ Tw!Same2(c.a.P[j], c.b.P[j]))
       /\ (IF Rel = "swap" THEN Tw!Complement(c.a.y[j], c.b.y[j]) ELSE EqR(c.a.y[j], c.b.y[j], Lit("1.0")))
       /\ (IF Rel = "swap" THEN InverseC(c.a.sf[j], c.b.sf[j], c.a.y[j]) /\ InverseU(c.a.sel[j], c.b.sel[j])
           ELSE SameC(c.a.sf[j], c.b.sf[j], c.a.y[j]) /\ EqR(c.a.sel[j], c.b.sel[j], c.a.sel[j])
                /\ SameC(c.a.psi[j], c.b.psi[j], c.a.y[j]))
\* a feed with less than a part per million of one component: both statements of it agree only to 1e-16 / (that fraction), and
\* extreme built-in parameters amplify this by |ln gamma|; the relations are then asserted component by component to three digits
\* (a trace flux that is exactly 0 in one statement and finite in the other is still reported)
IsTrace == FLt(FMin(E.xw, FSub(Lit("1.0"), E.xw)), Lit("1e-6"))
Coarse(a, b) == (FIsFinite(a) /\ FIsFinite(b)) => FCloseS(a, b, FMax(FAbs(a), FAbs(b)), Lit("1e-3"))
Pair2T(f) == IF Rel = "swap" THEN Coarse(f.a[1], f.b[2]) /\ Coarse(f.a[2], f.b[1]) ELSE Coarse(f.a[1], f.b[1]) /\ Coarse(f.a[2], f.b[2])
FnTrace == /\ (Fn(E.pp) => Pair2T(E.pp)) /\ (Fn(E.J) => Pair2T(E.J)) /\ (Fn(E.Jm) => Pair2T(E.Jm)) /\ (Fn(E.J2) => Pair2T(E.J2))
           /\ (Fn(E.y) => Frac(E.y)) /\ (Fn(E.curve) => CurveRel(E.curve)) /\ (Fn(E.msel) => Ratio(E.msel))
FnStrict == IF IsTrace THEN FnTrace ELSE
            /\ (Fn(E.gamma) => Pair2(E.gamma)) /\ (Fn(E.pp) => Pair2(E.pp))
            /\ (Fn(E.J) => Pair2(E.J)) /\ (Fn(E.Jm) => Pair2(E.Jm)) /\ (Fn(E.J2) => Pair2(E.J2))
            /\ (Fn(E.y) => Frac(E.y)) /\ ((Fn(E.sf) /\ Fn(E.y)) => RatioCX(E.sf, E.y.a, E.xw))
            /\ (Fn(E.curve) => CurveRel(E.curve))
            /\ (Fn(E.msel) => Ratio(E.msel))
Cl_FnRel == (E.ev = "FnTwin") => (FnStrict \/ D3_Excuses)
\* C07: non-ideal diffusion curve from a mass- or mole-fraction initial feed; measurement points extracted from a
\* curve set given in mass or in mole fractions
SeqSame(sa, sb, scale) == Len(sa) = Len(sb) /\ \A j \in 1..Len(sa) : EqR(sa[j], sb[j], scale)
Cl_CurveTwin == (E.ev = "CurveTwin" /\ E.ok) =>
                  /\ Len(E.a.J) = Len(E.b.J) /\ Len(E.a.P) = Len(E.b.P)
                  /\ \A j \in 1..Len(E.a.J) : Tw!Same2(E.a.J[j], E.b.J[j])
                  /\ \A j \in 1..Len(E.a.P) : Tw!Same2(E.a.P[j], E.b.P[j])
                  /\ SeqSame(E.a.x, E.b.x, Lit("1.0"))
                  /\ \A j \in 1..Len(E.a.xtype) : E.a.xtype[j] = "weight" /\ E.b.xtype[j] = "weight"
Cl_MeasTwin  == (E.ev = "MeasTwin") =>
                  /\ SeqSame(E.a.x1, E.b.x1, Lit("1.0")) /\ SeqSame(E.a.x2, E.b.x2, Lit("1.0"))
                  /\ SeqSame(E.a.t1, E.b.t1, Lit("300.0")) /\ SeqSame(E.a.t2, E.b.t2, Lit("300.0"))
                  /\ Len(E.a.p1) = Len(E.b.p1) /\ \A j \in 1..Len(E.a.p1) : EqR(E.a.p1[j], E.b.p1[j], E.a.p1[j])
                  /\ Len(E.a.p2) = Len(E.b.p2) /\ \A j \in 1..Len(E.a.p2) : EqR(E.a.p2[j], E.b.p2[j], E.a.p2[j])
\* the extraction itself against its specification (Extract.tla): one measurement per supplied point, curve by curve and point by
\* point in the caller's order, (mass fraction, curve temperature, that component's permeance) - reference semantics (DRIFT)
Ex == INSTANCE Extract WITH Add <- FAdd, Sub <- FSub, Mul <- FMul, Div <- FDiv, Dec <- Lit, Dev <- "none"
MeasIs(xs, ts, ps, want) == /\ Len(xs) = Len(want) /\ Len(ts) = Len(want) /\ Len(ps) = Len(want)
                            /\ \A j \in 1..Len(want) : /\ EqR(xs[j], want[j].x, Lit("1.0")) /\ ts[j] = want[j].t
                                                       /\ EqR(ps[j], want[j].p, want[j].p)
Ref_ExtractIsSpec == (E.ev = "MeasTwin") =>
                       /\ MeasIs(E.a.x1, E.a.t1, E.a.p1, Ex!OfSet(E.seta, 1, E.M1, E.M2))
                       /\ MeasIs(E.a.x2, E.a.t2, E.a.p2, Ex!OfSet(E.seta, 2, E.M1, E.M2))
                       /\ MeasIs(E.b.x1, E.b.t1, E.b.p1, Ex!OfSet(E.setb, 1, E.M1, E.M2))
                       /\ MeasIs(E.b.x2, E.b.t2, E.b.p2, Ex!OfSet(E.setb, 2, E.M1, E.M2))
Ref_CurveOutcome == (E.ev = "CurveTwin") => E.same_exc
Ref_FnOutcome == (E.ev = "FnTwin" /\ ~D3_Excuses) => /\ E.gamma.same_exc /\ E.pp.same_exc /\ E.J.same_exc /\ E.Jm.same_exc
                                      /\ E.y.same_exc /\ E.sf.same_exc /\ E.curve.same_exc /\ E.msel.same_exc

\* probes for the known finding D3 (strict relation on UNIQUAC relabelling twins)
KF_D3_Swap == ((E.ev = "FnTwin" \/ E.ev = "Pair") /\ O.rel = "swap" /\ O.model = "UNIQUAC" /\ O.probe) =>
                 (IF E.ev = "FnTwin" THEN FnStrict ELSE (AllFinite(E.a) /\ AllFinite(E.b)) => PairStrict)
=============================================================================
