SPECIFICATION Spec
INVARIANT KnownEvent
INVARIANT Cl_InvertsForward
INVARIANT Cl_UnitsNormalised
INVARIANT Cl_FluxesFromPermeances
INVARIANT Cl_ReinvertsBack
INVARIANT Cl_YFromFluxes
INVARIANT KF_D7_InvertsForward
INVARIANT Ref_CurveBuilt
CHECK_DEADLOCK FALSE
