----------------------------- MODULE FluxSolverCore -------------------------
(***************************************************************************)
(* The flux calculation (pyvaporation/pervaporation/pervaporation.py:32-161)*)
(* as a state machine.                                                      *)
(*   Seed     y := Y(P (.) pf)                      vacuum fluxes           *)
(*   Iterate  y := Y(P (.) (pf - PermPress(y)))     while d >= precision    *)
(*   Exit     J := P (.) (pf - PermPress(y))        final re-evaluation     *)
(*   GiveUp   raise after MaxIter iterations        (the iteration bound)   *)
(*   Reject   raise when an iterate is no valid composition                 *)
(* inp = [P1, P2, prec, pf |-> <<pf1, pf2>>, ...] ; PermPress(inp, y) gives  *)
(* the permeate-side partial pressures at permeate mass fraction y (per     *)
(* permeate mode) and is supplied by the instantiating module.              *)
(***************************************************************************)
EXTENDS Integers, Sequences
CONSTANTS Add(_,_), Sub(_,_), Mul(_,_), Div(_,_), Lt(_,_), Le(_,_), Eq(_,_,_), Dec(_),
          PermPress(_,_),
          Bounded, MaxIter          \* Bounded = FALSE: the loop as originally written (no bound, and no
                                    \* counter: where the map cycles the state space is finite and TLC's
                                    \* liveness check finds the cycle)
VARIABLES inp, y, d, n, pc, J

vars == <<inp, y, d, n, pc, J>>
Zero == Dec("0")
One  == Dec("1")
Neg(x) == Sub(Zero, x)
Abs(x) == IF Lt(x, Zero) THEN Neg(x) ELSE x
Max(x, z) == IF Lt(x, z) THEN z ELSE x

(* ------------------------- pure operators -------------------------------- *)
Y(j)              == Div(j[1], Add(j[1], j[2]))              \* permeate mass fraction of fluxes j
FluxAt(P1, P2, pf, pp) == <<Mul(P1, Sub(pf[1], pp[1])), Mul(P2, Sub(pf[2], pp[2]))>>
ValidY(v)         == Le(Zero, v) /\ Le(v, One)               \* the Composition validator
Dist(y0, y1)      == Max(Abs(Sub(y1, y0)), Abs(Sub(Sub(One, y1), Sub(One, y0))))
Continue(dd, prec) == ~Lt(dd, prec)                          \* while d >= precision

(* ------------------------------ actions ---------------------------------- *)
Seed ==
  /\ pc = "start"
  /\ LET y0 == Y(<<Mul(inp.P1, inp.pf[1]), Mul(inp.P2, inp.pf[2])>>)
     IN IF ValidY(y0)
        THEN y' = y0 /\ d' = One /\ n' = 0 /\ pc' = "loop" /\ UNCHANGED <<inp, J>>
        ELSE pc' = "raised" /\ UNCHANGED <<inp, y, d, n, J>>

Iterate ==
  /\ pc = "loop" /\ Continue(d, inp.prec) /\ (Bounded => n < MaxIter)
  /\ LET yn == Y(FluxAt(inp.P1, inp.P2, inp.pf, PermPress(inp, y)))
     IN IF ValidY(yn)
        THEN y' = yn /\ d' = Dist(y, yn) /\ n' = (IF Bounded THEN n + 1 ELSE n) /\ UNCHANGED <<inp, pc, J>>
        ELSE pc' = "raised" /\ UNCHANGED <<inp, y, d, n, J>>

GiveUp ==
  /\ Bounded /\ pc = "loop" /\ Continue(d, inp.prec) /\ n >= MaxIter
  /\ pc' = "raised" /\ UNCHANGED <<inp, y, d, n, J>>

Exit ==
  /\ pc = "loop" /\ ~Continue(d, inp.prec)
  /\ J' = FluxAt(inp.P1, inp.P2, inp.pf, PermPress(inp, y))
  /\ pc' = "returned" /\ UNCHANGED <<inp, y, d, n>>

Next == Seed \/ Iterate \/ GiveUp \/ Exit
Done == pc \in {"returned", "raised"}

(* --------------- clauses of C02 / C10 on the machine's state ------------- *)
\* returned fluxes obey the law at the permeate composition the machine stopped at
Law(scale) == (pc = "returned") =>
  LET pp == PermPress(inp, y)
  IN /\ Eq(J[1], Mul(inp.P1, Sub(inp.pf[1], pp[1])), scale)
     /\ Eq(J[2], Mul(inp.P2, Sub(inp.pf[2], pp[2])), scale)
\* the loop was left because the last change was below the precision
ExitedBelowPrecision == (pc = "returned") => Lt(d, inp.prec)
\* evaluations are bounded
BoundedEvaluations == Bounded => n <= MaxIter
=============================================================================
