SPECIFICATION Spec
INVARIANT KnownEvent
INVARIANT Cl_YFromFluxes
INVARIANT Cl_StepEqualsStandalone
CHECK_DEADLOCK FALSE
