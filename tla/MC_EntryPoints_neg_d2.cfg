SPECIFICATION Spec
CONSTANT Deviation = "helper_drops_model"
INVARIANT SameFluxes
INVARIANT ModelHonoured
CHECK_DEADLOCK FALSE
