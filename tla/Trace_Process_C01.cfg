SPECIFICATION Spec
INVARIANT KnownEvent
INVARIANT Cl_Init0
INVARIANT Cl_Len
INVARIANT Cl_TimeGrid
INVARIANT Cl_MassBal
INVARIANT Cl_CompBal
INVARIANT Ref_StepFluxes
INVARIANT Ref_IdealPermeance
INVARIANT Ref_Heats
CHECK_DEADLOCK FALSE
