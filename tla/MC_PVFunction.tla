---------------------------- MODULE MC_PVFunction ----------------------------
(***************************************************************************)
(* Leg A for C05/C16: the fitted permeance function on a grid of            *)
(* coefficient sets, compositions and temperatures (IEEE arithmetic):       *)
(* scaling by a constant, and the single-curve re-basing used by the        *)
(* non-ideal models equals the Arrhenius law.  One state per grid point     *)
(* and walk over the temperature axis.                                      *)
(***************************************************************************)
EXTENDS Integers, Sequences, TLC, F64
CONSTANT Deviation        \* "none" | "rebase_keeps_b0"
EqR(a, b, s) == FCloseS(a, b, s, Lit("1e-9"))
PF == INSTANCE PVFunction WITH Add <- FAdd, Sub <- FSub, Mul <- FMul, Div <- FDiv, Lt <- FLt, Le <- FLe,
                               Eq <- EqR, Dec <- Lit, Exp <- FExp, PowInt <- FPowInt
Fits == { [alpha |-> Lit("0.02"), a |-> <<>>, b |-> <<Lit("1500.0")>>],
          [alpha |-> Lit("3.5"), a |-> <<Lit("-1.2")>>, b |-> <<Lit("2400.0")>>],
          [alpha |-> Lit("1e-4"), a |-> <<Lit("0.7"), Lit("-2.0"), Lit("1.1")>>, b |-> <<Lit("-300.0")>>],
          [alpha |-> Lit("0.3"), a |-> <<Lit("2.0")>>, b |-> <<Lit("900.0"), Lit("-150.0")>>] }
Xs == {Lit("0.0"), Lit("0.05"), Lit("0.5"), Lit("0.93"), Lit("1.0")}
Eas == {Lit("-20000.0"), Lit("0.0"), Lit("45000.0")}
VARIABLES f, x, Ea, Tc, T
vars == <<f, x, Ea, Tc, T>>
Init == f \in Fits /\ x \in Xs /\ Ea \in Eas /\ Tc \in {Lit("303.15"), Lit("333.15")} /\ T = Lit("280.0")
Next == FLt(T, Lit("380.0")) /\ T' = FAdd(T, Lit("12.5")) /\ UNCHANGED <<f, x, Ea, Tc>>
Spec == Init /\ [][Next]_vars
Reb(g) == IF Deviation = "none" THEN PF!Rebased(g, Ea, Tc)
          ELSE [PF!Rebased(g, Ea, Tc) EXCEPT !.b = g.b]            \* wrong design: forgets to replace b0
Inv_Scales  == PF!ScalesLinearly(f, Lit("3.7"), x, T, PF!Value(f, x, T))
Inv_Rebased == (Len(f.b) = 1) => EqR(PF!Value(Reb(f), x, T), PF!ArrheniusOfCurve(f, x, T, Ea, Tc), PF!ArrheniusOfCurve(f, x, T, Ea, Tc))
Inv_AtCurveTemperature == (Len(f.b) = 1) => EqR(PF!Value(Reb(f), x, Tc), PF!Value(f, x, Tc), PF!Value(f, x, Tc))
=============================================================================
