SPECIFICATION Spec
CONSTANT Deviation = "none"
INVARIANT RejectsInvalid
CHECK_DEADLOCK FALSE
