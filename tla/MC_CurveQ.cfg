SPECIFICATION Spec
CONSTANT Inversion = "same_basis"
INVARIANT Inv_InvertsForward
INVARIANT Inv_UnitsNormalised
INVARIANT Inv_Fluxes
CHECK_DEADLOCK FALSE
