----------------------------- MODULE Trace_Process -----------------------------
(***************************************************************************)
(* Leg B for the process models (C01, C03, C05, C08, C18).  One trace per   *)
(* call of one of the four real process models:                             *)
(*  Start{kind, iso, ideal, mode, model, N, dt, A, m0, x0_in, basis, x0w,   *)
(*        T0, hasTperm, Tperm, haspperm, pperm, hasProg, prog, P0given,     *)
(*        P0kg, M1, M2, ...}                                                *)
(*  State{k, time, m, x, xtype, T, J1, J2, y, ytype, P1, P2, Qevap,          *)
(*        hasQcond, Qcond,  h1, h2, cp1, cp2, progT, Jstd, hasJstd, F, Fprev} *)
(*        the reported step k plus oracle values from the public API at     *)
(*        the reported state                                                *)
(*  End{outcome, lens}                                                      *)
(* Consecutive State lines must be related by the Step of the Process       *)
(* specification: its relations are the clauses below.                      *)
(***************************************************************************)
EXTENDS Integers, Sequences, TLC, F64, F64Json, IOUtils

Trace == F64NdJson(IOEnv.TRACE_FILE)
EqX(a, b, s) == FCloseS(a, b, s, Lit("1e-12"))
EqR(a, b, s) == FCloseS(a, b, s, Lit("1e-9"))
VARIABLE l
PF == INSTANCE PVFunction WITH Add <- FAdd, Sub <- FSub, Mul <- FMul, Div <- FDiv, Lt <- FLt, Le <- FLe,
                               Eq <- EqR, Dec <- Lit, Exp <- FExp, PowInt <- FPowInt
Th == INSTANCE Thermo WITH Add <- FAdd, Sub <- FSub, Mul <- FMul, Div <- FDiv, Lt <- FLt, Le <- FLe,
                           Eq <- EqR, Dec <- Lit, Exp <- FExp, Ln <- FLog, Pow10 <- FPow10
MB == INSTANCE Membrane WITH Add <- FAdd, Sub <- FSub, Mul <- FMul, Div <- FDiv, Lt <- FLt, Le <- FLe,
                             Eq <- EqR, Dec <- Lit, Exp <- FExp, Ln <- FLog, Pow10 <- FPow10, Num <- FromInt
TP == INSTANCE TemperatureProgram WITH Add <- FAdd, Mul <- FMul, Dec <- Lit, Exp <- FExp, Ln <- FLog, PowInt <- FPowInt
Pr == INSTANCE Process WITH Add <- FAdd, Sub <- FSub, Mul <- FMul, Div <- FDiv, Lt <- FLt, Le <- FLe,
                            Eq <- EqX, Dec <- Lit, Num <- FromInt, Dev <- "none",
                            run <- l, time <- l, m <- l, x <- l, T <- l, J <- l, y <- l, P <- l, Qe <- l, Qc <- l, pc <- l

\* the reference flux solver over the reference thermodynamics, for the run that line l belongs to
RefPP(i, yy) == IF i.mode = "vac" THEN <<Lit("0.0"), Lit("0.0")>>
                ELSE IF i.mode = "temp" THEN Th!PartialPressures(i.mix, i.variant, i.Tperm, yy, "weight")
                ELSE <<FMul(i.pperm, yy), FMul(i.pperm, FSub(Lit("1.0"), yy))>>
FS == INSTANCE FluxSolver WITH Add <- FAdd, Sub <- FSub, Mul <- FMul, Div <- FDiv, Lt <- FLt, Le <- FLe,
                               Eq <- EqR, Dec <- Lit, PermPress <- RefPP, Bounded <- TRUE, MaxIter <- 300,
                               inp <- l, y <- l, d <- l, n <- l, pc <- l, J <- l
Starts == {j \in 1..Len(Trace) : Trace[j].i = 0}
Init == l \in Starts
Next == l < Len(Trace) /\ Trace[l + 1].i > 0 /\ l' = l + 1
Spec == Init /\ [][Next]_l
E   == Trace[l]
O   == Trace[l - E.i]
Pre == Trace[l - 1]
S0  == Trace[l - E.i + 1]                 \* the State line of step 0
IsState == E.ev = "State"
Later   == IsState /\ E.k >= 1
One == Lit("1.0")
Zero == Lit("0.0")
Fin(v) == FIsFinite(v)

KnownEvent == /\ E.ev \in {"Start", "State", "End", "Step0Twin", "NIStart", "NIPoint", "NIEnd"}
              /\ (IsState => E.k = E.i - 1)                        \* steps are reported in order, none missing

(* ------------------------------------ C01 ------------------------------------ *)
Cl_Init0    == (IsState /\ E.k = 0) => /\ E.m = O.m0 /\ E.T = O.T0
                                        /\ EqX(E.x, O.x0w, One) /\ E.xtype = "weight"
Cl_Len      == (E.ev = "End" /\ E.outcome = "return") =>
                 /\ \A j \in 1..Len(E.lens) : E.lens[j] = O.N
                 /\ E.i = O.N + 1                                    \* N State lines precede End
Cl_TimeGrid == IsState => EqX(E.time, FMul(O.dt, FromInt(E.k)), E.time)
Cl_MassBal  == Later => Pr!MassBalRel(Pre, E, O)
Cl_CompBal  == Later => Pr!CompBalRel(Pre, E, O)

(* ------------------------------------ C03 ------------------------------------ *)
Cl_Qevap     == IsState => Pr!QevapRel(E, O, E.h1, E.h2)
\* the specific heat is weighted with the MASS fraction of the reported feed composition, whatever basis it is reported in
XW(e) == IF e.xtype = "weight" THEN e.x
         ELSE FDiv(FMul(O.M1, e.x), FAdd(FMul(O.M1, e.x), FMul(O.M2, FSub(Lit("1.0"), e.x))))      \* Composition!ToWeightP
Cl_SelfCool  == (Later /\ ~O.iso /\ ~O.hasProg) => Pr!SelfCoolRel([Pre EXCEPT !.x = XW(Pre)], E, Pre.cp1, Pre.cp2)
\* the programme's value is computed HERE from its type and coefficients (TemperatureProgram.tla), not taken from the library
Cl_Programme == (Later /\ O.hasProg) => LET v == TP!Value(O.prog, E.time)
                                         IN (FIsFinite(v) /\ FIsFinite(E.T)) => EqR(E.T, v, FAdd(FAbs(v), O.T0))
\* reference semantics of the programme itself (DRIFT): the public program() equals the specification's formula
Ref_ProgramValue == (IsState /\ O.hasProg) => EqR(E.progT, TP!Value(O.prog, E.time), E.progT)
Cl_IsoConst  == (IsState /\ O.iso) => E.T = O.T0
Cl_QcondIff  == IsState => (E.hasQcond <=> O.hasTperm)
\* Step0Twin{a, b}: step 0 of the isothermal (a) and of the non-isothermal (b) model started from the same conditions
Cl_Step0Agree == (E.ev = "Step0Twin") =>
                 LET tot == FAdd(FAbs(E.a.J1), FAbs(E.a.J2))
                 IN /\ EqR(E.a.J1, E.b.J1, tot) /\ EqR(E.a.J2, E.b.J2, tot)
                    /\ EqR(E.a.Qevap, E.b.Qevap, E.b.Qevap)
                    /\ (E.a.hasQcond <=> E.b.hasQcond)
                    /\ EqR(E.a.Qcond, E.b.Qcond, E.b.Qcond)

(* ------------------------------------ C18 ------------------------------------ *)
Cl_Admissible == IsState =>
                 /\ FLt(Zero, E.m) /\ Fin(E.m)
                 /\ FLe(Zero, E.x) /\ FLe(E.x, One) /\ FLe(Zero, E.y) /\ FLe(E.y, One)
                 /\ FLt(Zero, E.T) /\ Fin(E.T)
                 /\ Fin(E.J1) /\ Fin(E.J2) /\ Fin(E.Qevap) /\ Fin(E.Qcond)

(* ------------------------------- C08 (process part) -------------------------- *)
Cl_YFromFluxes == IsState => EqX(E.y, FDiv(E.J1, FAdd(E.J1, E.J2)), One) /\ E.ytype = "weight"
Cl_StepEqualsStandalone == (IsState /\ E.hasJstd) =>
                 /\ EqR(E.J1, E.Jstd[1], FAdd(FAbs(E.J1), FAbs(E.J2))) /\ EqR(E.J2, E.Jstd[2], FAdd(FAbs(E.J1), FAbs(E.J2)))

(* ------------------------------------ C05 ------------------------------------ *)
\* non-ideal models: P_i[k] = F_i(x[idx], T[k]) * FR_i,  idx = k (k-1 in the isothermal model), FR_i = P_i[0] / F_i(x[0], T[0])
FitAt(r) == IF O.iso THEN r.Fprev ELSE r.F
Cl_PermFollowsFit == (Later /\ ~O.ideal) =>
                 /\ EqR(FMul(E.P1, S0.F[1]), FMul(FitAt(E)[1], S0.P1), FMul(E.P1, S0.F[1]))
                 /\ EqR(FMul(E.P2, S0.F[2]), FMul(FitAt(E)[2], S0.P2), FMul(E.P2, S0.F[2]))
Cl_Step0Reproduces == (IsState /\ E.k = 0 /\ ~O.ideal) =>
                 IF O.P0given THEN EqR(E.P1, O.P0kg[1], E.P1) /\ EqR(E.P2, O.P0kg[2], E.P2)
                 ELSE EqR(E.P1, E.F[1], E.P1) /\ EqR(E.P2, E.F[2], E.P2)
Cl_PermUnits == IsState => E.Punits = "kg/(m2*h*kPa)"

\* the returned function is the one the public best-fit search produces (oracle fits_orc); with a single curve at
\* temperature Tc it is that function at Tc times the Arrhenius factor of the membrane's activation energy
Expected(o, i, xx, TT, rebased) ==
  IF rebased THEN PF!ArrheniusOfCurve(o.fits_orc[i], xx, TT, o.Ea[i], o.Tcurve) ELSE PF!Value(o.fits_orc[i], xx, TT)
\* process models: the isothermal one re-bases only when the curve temperature differs from the feed temperature
ProcRebased == O.single /\ (~O.iso \/ ~FEqNum(O.Tcurve, O.T0))
SameFit(f, g) == /\ EqR(f.alpha, g.alpha, f.alpha) /\ Len(f.a) = Len(g.a) /\ Len(f.b) = Len(g.b)
                 /\ \A j \in 1..Len(f.a) : EqR(f.a[j], g.a[j], FMax(FAbs(f.a[j]), Lit("1e-6")))
                 /\ \A j \in 1..Len(f.b) : EqR(f.b[j], g.b[j], FMax(FAbs(f.b[j]), Lit("1e-6")))
Cl_FitIsBestFit == /\ ((E.ev = "Start" /\ E.hasFits /\ ~(E.single /\ (~E.iso \/ ~FEqNum(E.Tcurve, E.T0)))) =>
                         SameFit(E.fits_ret[1], E.fits_orc[1]) /\ SameFit(E.fits_ret[2], E.fits_orc[2]))
                   /\ ((IsState /\ O.hasFits) =>
                         /\ EqR(E.F[1], Expected(O, 1, E.x, E.T, ProcRebased), E.F[1])
                         /\ EqR(E.F[2], Expected(O, 2, E.x, E.T, ProcRebased), E.F[2]))
\* the same for the curve model (it returns no fit objects: the oracle is the only handle)
NIRebased == O.single /\ ~FEqNum(O.Tcurve, O.T)
N0 == Trace[l - E.i + 1]                    \* point 0 of the curve
\* a recorded point as the NICurve machine sees it: composition, permeance pair, and the values of the two fitted functions there
NIc == INSTANCE NICurve WITH Add <- FAdd, Sub <- FSub, Mul <- FMul, Div <- FDiv, Lt <- FLt, Le <- FLe, Eq <- EqR, Dec <- Lit,
                             Dev <- "none", run <- l, xs <- l, Ps <- l, Js <- l, fv <- l, FR <- l, pc <- l
NIpt(r) == [x |-> r.x, P |-> r.P, f |-> <<Expected(O, 1, r.x, O.T, NIRebased), Expected(O, 2, r.x, O.T, NIRebased)>>]
Cl_NI_PermFollowsFit == (E.ev = "NIPoint" /\ E.j >= 1) => \A i \in 1..2 : NIc!PermRel(NIpt(E), NIpt(N0), i)
Cl_NI_Step0 == (E.ev = "NIPoint" /\ E.j = 0) =>
                   /\ EqR(E.x, O.x0w, One) /\ E.xtype = "weight"
                   /\ IF O.P0given THEN EqR(E.P[1], O.P0kg[1], E.P[1]) /\ EqR(E.P[2], O.P0kg[2], E.P[2])
                      ELSE \A i \in 1..2 : EqR(E.P[i], Expected(O, i, E.x, O.T, NIRebased), E.P[i])
Cl_NI_Len == (E.ev = "NIEnd") => (E.nx = E.nP /\ E.nx = E.nJ /\ E.nx = O.N + 1 /\ E.i = E.nx + 1)
\* the rest of the NICurve machine on recorded curves (reference semantics, DRIFT): the composition grid, the fluxes of every
\* point = the public standalone calculation at that point's own composition and permeances, and the outcome of the call
\* (it returns iff every grid point including the look-ahead point of the last iteration is a fraction)
Ref_NI_Grid == (E.ev = "NIPoint" /\ E.j >= 1) => NIc!GridRel(Pre, E, O.dx)
Ref_NI_FluxAtPoint == (E.ev = "NIPoint" /\ E.Jstd # <<>>) =>
                   LET tot == FAdd(FAbs(E.J[1]), FAbs(E.J[2])) IN EqR(E.J[1], E.Jstd[1], tot) /\ EqR(E.J[2], E.Jstd[2], tot)
Ref_NI_Outcome == (E.ev = "NIStart") => /\ (E.outcome = "return" => NIc!ReturnsByGrid(E.x0w, E.dx, E.N))
                                         /\ (~NIc!ReturnsByGrid(E.x0w, E.dx, E.N) => E.outcome = "raise")

(* ------------- the whole ideal process as an executable reference (DRIFT level) ------------- *)
(* Start carries the mixture parameters and the membrane's experiments; every reported state is  *)
(* re-computed by the specification: permeances by Membrane, fluxes by FluxSolver over Thermo,  *)
(* latent heats and heat capacities by Component.                                               *)
Variants(model) == IF model = "NRTL" THEN {"NRTL"} ELSE {"UNIQUAC", "UNIQUAC_AsImplemented"}
HasRef == IsState /\ O.hasRef
RefInp(v) == [P1 |-> E.P1, P2 |-> E.P2, prec |-> O.prec, mode |-> O.mode, Tperm |-> O.Tperm, pperm |-> O.pperm,
              mix |-> O.mix, variant |-> v, pf |-> Th!PartialPressures(O.mix, v, E.T, E.x, "weight")]
Ref_StepFluxes == HasRef => \E v \in Variants(O.model) :
                    LET r == FS!Solve(RefInp(v))
                        tot == FAdd(FAbs(E.J1), FAbs(E.J2))
                    IN r.pc = "returned" => (EqR(FMul(E.J1, Lit("1.0")), r.J[1], FMul(tot, Lit("100.0")))
                                             /\ EqR(E.J2, r.J[2], FMul(tot, Lit("100.0"))))
Ref_IdealPermeance == (HasRef /\ O.ideal) =>
                    LET p1 == MB!Permeance(O.exps1, E.T)
                        p2 == MB!Permeance(O.exps2, E.T)
                    IN (~p1.raise /\ ~p2.raise) => (EqR(E.P1, p1.v, p1.v) /\ EqR(E.P2, p2.v, p2.v))
Ref_Heats == HasRef => /\ EqR(E.h1, FMul(FDiv(Th!Cpt!Hvap(O.mix.vp1, E.T), O.M1), Lit("1000.0")), E.h1)
                       /\ EqR(E.h2, FMul(FDiv(Th!Cpt!Hvap(O.mix.vp2, E.T), O.M2), Lit("1000.0")), E.h2)
                       /\ EqR(E.cp1, FDiv(Th!Cpt!Cp(O.hc1, E.T), O.M1), E.cp1)
                       /\ EqR(E.cp2, FDiv(Th!Cpt!Cp(O.hc2, E.T), O.M2), E.cp2)
=============================================================================
