----------------------------- MODULE Trace_Loader -----------------------------
(***************************************************************************)
(* Legs B/C for the membrane-directory machine (Loader.tla), run by C17.    *)
(* Directories are built to TLC's layout table and edited along TLC's       *)
(* simulated histories; every public Membrane.load is one line:             *)
(*  Load{fs (layout before: what the harness wrote + what exists), outcome, *)
(*       obj, before/after (<<path, md5>> of every file), dirsBefore/After, *)
(*       resultsAfter, spec_* (TLC's own prediction for this step),         *)
(*       exps_orig/exps_loaded, curves_orig/curves_loaded}                  *)
(*  Edit{op, fs}   LoaderStart{source}                                      *)
(***************************************************************************)
EXTENDS Integers, Sequences, FiniteSets, TLC, F64, F64Json, IOUtils
Trace == F64NdJson(IOEnv.TRACE_FILE)
EqR(a, b, s) == FCloseS(a, b, s, Lit("1e-9"))
VARIABLE l
Starts == {j \in 1..Len(Trace) : Trace[j].i = 0}
Init == l \in Starts
Next == l < Len(Trace) /\ Trace[l + 1].i > 0 /\ l' = l + 1
Spec == Init /\ [][Next]_l
E == Trace[l]
Range(s) == {s[j] : j \in 1..Len(s)}

\* the abstract layout of a line, as a value of Loader!Layouts
Fs(e) == [csv |-> e.fs.csv, hasSets |-> e.fs.hasSets, results |-> e.fs.results,
          entries |-> [n \in {x.name : x \in Range(e.fs.entries)} |-> (CHOOSE x \in Range(e.fs.entries) : x.name = n).kind]]
L == INSTANCE Loader WITH EntryNames <- {}, MkdirFirst <- FALSE, MaxOps <- 0, fs <- Fs(E), last <- [op |-> "none"], nops <- 0

KnownEvent == E.ev \in {"LoaderStart", "Edit", "Load"}
IsLoad == E.ev = "Load"
Ok == IsLoad /\ E.outcome = "ok"

\* ---- clause of C17: curves written by the public writer come back unchanged through Membrane.load
SeqEq(a, b) == Len(a) = Len(b) /\ \A j \in 1..Len(a) : EqR(a[j], b[j], a[j])
OptEq(a, b) == a.has = b.has /\ \A j \in 1..Len(a.v) : (a.has[j] => EqR(a.v[j], b.v[j], a.v[j]))
CurveEq(a, b) == /\ EqR(a.T, b.T, a.T) /\ OptEq(a.Tperm, b.Tperm) /\ OptEq(a.pperm, b.pperm)
                 /\ SeqEq(a.x, b.x) /\ SeqEq(a.J1, b.J1) /\ SeqEq(a.J2, b.J2) /\ SeqEq(a.P1, b.P1) /\ SeqEq(a.P2, b.P2)
                 /\ a.units = b.units /\ a.mixture = b.mixture
Cl_RoundTripCurveViaMembrane == Ok => /\ Len(E.curves_orig) = Len(E.curves_loaded)
                                      /\ \A j \in 1..Len(E.curves_orig) : CurveEq(E.curves_orig[j], E.curves_loaded[j])
Cl_ReloadIsMassFraction == Ok => \A j \in 1..Len(E.curves_loaded) : \A k \in 1..Len(E.curves_loaded[j].xtype) : E.curves_loaded[j].xtype[k] = "weight"

\* ---- the machine (reference semantics: DRIFT)
Ref_LoadOutcome == IsLoad => E.outcome = L!Outcome(Fs(E))
Ref_LoadObject == Ok => /\ E.obj.hasIE = L!Object(Fs(E)).hasIE
                        /\ Range(E.obj.sets) = L!Object(Fs(E)).sets /\ Len(E.obj.sets) = Cardinality(Range(E.obj.sets))
                        /\ (E.obj.setsNone <=> L!Object(Fs(E)).sets = {})
                        /\ E.obj.nameOk /\ E.obj.pathOk
Ref_LoadOnlyAddsResults == IsLoad => /\ E.after = E.before
                                     /\ E.resultsAfter = L!After(Fs(E)).results
                                     /\ Range(E.dirsBefore) \subseteq Range(E.dirsAfter)
                                     /\ Range(E.dirsAfter) \ Range(E.dirsBefore) \subseteq {"results/"}
\* TLC's own prediction for this step of its history / row of its table
Ref_MatchesSpecBehaviour == (IsLoad /\ E.hasSpec) => /\ E.outcome = E.spec_outcome
                                                     /\ (E.outcome = "ok" => (E.obj.hasIE = E.spec_hasIE /\ Range(E.obj.sets) = Range(E.spec_sets)))
\* two loads in a row
Ref_LoadIdempotent == (IsLoad /\ E.i >= 1 /\ Trace[l - 1].ev = "Load" /\ Trace[l - 1].outcome = "ok") =>
                         (E.outcome = "ok" /\ E.obj = Trace[l - 1].obj /\ E.after = Trace[l - 1].after /\ E.dirsAfter = Trace[l - 1].dirsAfter)
ExpEq(a, b) == /\ a.name = b.name /\ a.comp = b.comp /\ EqR(a.T, b.T, a.T) /\ EqR(a.P, b.P, a.P) /\ a.units = b.units
               /\ a.hasEa = b.hasEa /\ (a.hasEa => EqR(a.Ea, b.Ea, a.Ea))
Ref_ExperimentsRoundTrip == Ok => /\ Len(E.exps_orig) = Len(E.exps_loaded)
                                  /\ \A j \in 1..Len(E.exps_orig) : ExpEq(E.exps_orig[j], E.exps_loaded[j])
=============================================================================
