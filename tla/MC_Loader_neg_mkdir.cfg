SPECIFICATION Spec
CONSTANT EntryNames = {"s1", "s2"}
CONSTANT MkdirFirst = TRUE
CONSTANT MaxOps = 5
INVARIANT TypeOK
INVARIANT NeverEmptyObject
INVARIANT SkipsIgnorable
PROPERTY LoadOnlyAddsResults
PROPERTY LoadIdempotent
CHECK_DEADLOCK FALSE
