SPECIFICATION Spec
CONSTANT Names = {"a", "b", "c"}
CONSTANT Models = {"m1", "m2"}
CONSTANT Rename = TRUE
CONSTANT Overwrite = FALSE
CONSTANT MaxSaves = 3
INVARIANT RoundTrip
PROPERTY OldDirsImmutable
PROPERTY FreshDirOrRaise
CHECK_DEADLOCK FALSE
