------------------------------- MODULE NICurve -------------------------------
(***************************************************************************)
(* The composition-stepping loop of Pervaporation.non_ideal_diffusion_curve *)
(* (pyvaporation/pervaporation/pervaporation.py: 679-897) as a state        *)
(* machine over an abstract arithmetic.                                     *)
(*                                                                         *)
(* run = [N, x0w, dx, hasInit, P0]   (x0w: the initial composition already  *)
(*        converted to a mass fraction; P0: the supplied initial permeance  *)
(*        pair in kg units when hasInit)                                    *)
(* The code keeps three lists: compositions (initial entry + one look-ahead *)
(* entry per iteration, popped at the end), permeances (the same) and       *)
(* partial fluxes (one entry per iteration); the loop runs N + 1 times, so  *)
(* a returned curve has N + 1 points.  The look-ahead composition is        *)
(* CONSTRUCTED (and validated) before the fluxes of the current point are   *)
(* computed: a curve whose last point is x = 1 - dx/2 raises although the   *)
(* offending entry would have been popped.  This is what the code does and  *)
(* it is modelled as such (Raise).                                          *)
(*                                                                         *)
(* What the loop takes from outside is the environment, chosen freely by    *)
(* the model checker and bound to oracle values on traces:                  *)
(*   e0 = [f1, f2]            values of the two fitted functions at x0w     *)
(*   e  = [J1, J2, f1n, f2n]  fluxes of the current point from the solver,  *)
(*                            fitted functions at the look-ahead point      *)
(* fv remembers the fit values the permeances were built from (a history    *)
(* variable, needed to state "the permeance follows the fit").              *)
(***************************************************************************)
EXTENDS Integers, Sequences
CONSTANTS Add(_,_), Sub(_,_), Mul(_,_), Div(_,_), Lt(_,_), Le(_,_), Eq(_,_,_), Dec(_),
          Dev      \* "none", or a NAMED wrong design for negative configurations:
                   \* "perm_lag"  - the look-ahead permeance is built from the fit at the CURRENT composition
                   \* "no_pop"    - the look-ahead composition is not popped
                   \* "fr_shared" - the second component uses the first component's facilitation factor
                   \* "fr_drifts" - the factor is re-derived every step from the previous permeance and the NEW fit value
VARIABLES run, xs, Ps, Js, fv, FR, pc
vars == <<run, xs, Ps, Js, fv, FR, pc>>
Zero == Dec("0")
One  == Dec("1")
ValidFraction(v) == Le(Zero, v) /\ Le(v, One)

\* facilitation factors: supplied permeance / fit at the start; fit / fit (= 1) when nothing is supplied
FROf(r, e0) == LET p == IF r.hasInit THEN r.P0 ELSE <<e0.f1, e0.f2>>
               IN <<Div(p[1], e0.f1), IF Dev = "fr_shared" THEN Div(p[1], e0.f1) ELSE Div(p[2], e0.f2)>>
P0Of(r, e0) == IF r.hasInit THEN r.P0 ELSE <<e0.f1, e0.f2>>

Start(r, e0) ==
  /\ pc = "init"
  /\ ValidFraction(r.x0w)
  /\ run' = r
  /\ xs' = <<r.x0w>> /\ Ps' = <<P0Of(r, e0)>> /\ Js' = <<>>
  /\ fv' = <<<<e0.f1, e0.f2>>>>
  /\ FR' = FROf(r, e0)
  /\ pc' = "loop"

Ahead == Add(xs[Len(xs)], run.dx)                  \* compositions[i].first + delta_composition
Step(e) ==
  /\ pc = "loop" /\ Len(Js) < run.N + 1
  /\ ValidFraction(Ahead)
  /\ LET i == Len(Js) + 1
         f == IF Dev = "perm_lag" THEN fv[i] ELSE <<e.f1n, e.f2n>>
         fr == IF Dev = "fr_drifts" THEN <<Div(Ps[i][1], e.f1n), Div(Ps[i][2], e.f2n)>> ELSE FR
     IN /\ xs' = Append(xs, Ahead)
        /\ Js' = Append(Js, <<e.J1, e.J2>>)
        /\ Ps' = Append(Ps, <<Mul(f[1], fr[1]), Mul(f[2], fr[2])>>)
        /\ fv' = Append(fv, <<e.f1n, e.f2n>>)
  /\ UNCHANGED <<run, FR, pc>>
Raise ==
  /\ pc = "loop" /\ Len(Js) < run.N + 1
  /\ ~ValidFraction(Ahead)
  /\ pc' = "raised"
  /\ UNCHANGED <<run, xs, Ps, Js, fv, FR>>
Pop(s) == SubSeq(s, 1, Len(s) - 1)
Finish ==
  /\ pc = "loop" /\ Len(Js) = run.N + 1
  /\ xs' = (IF Dev = "no_pop" THEN xs ELSE Pop(xs)) /\ Ps' = Pop(Ps) /\ fv' = Pop(fv)
  /\ pc' = "returned"
  /\ UNCHANGED <<run, Js, FR>>

(* ------------------------ properties of a returned curve ------------------------ *)
Returned == pc = "returned"
LenOK == Returned => Len(xs) = run.N + 1 /\ Len(Ps) = run.N + 1 /\ Len(Js) = run.N + 1
Init0 == Returned => xs[1] = run.x0w
Grid  == Returned => \A k \in 1..run.N : Eq(xs[k + 1], Add(xs[k], run.dx), One)
\* C05: the permeance of point k is the fit at the composition of point k times a factor that is constant over the curve
\* and fixed by point 0 (cross-multiplied: P[k] * f[1] = f[k] * P[1])
PermFollowsFit == Returned => \A k \in 1..(run.N + 1) : \A c \in 1..2 :
                     Eq(Mul(Ps[k][c], fv[1][c]), Mul(fv[k][c], Ps[1][c]), Mul(Ps[k][c], fv[1][c]))
Step0 == Returned => Ps[1] = (IF run.hasInit THEN run.P0 ELSE fv[1])
AllValid == Returned => \A k \in 1..(run.N + 1) : ValidFraction(xs[k])
\* as built: a return implies that the look-ahead point after the last one was a valid fraction too
LookAheadValid == Returned => ValidFraction(Add(xs[run.N + 1], run.dx))

(* ------------- relations between consecutive recorded points (trace binding) ------------- *)
\* s, t: points j and j+1 of a returned curve = [x, P, f]; p0: point 0; dx: the composition step
GridRel(s, t, dx) == Eq(t.x, Add(s.x, dx), One)
PermRel(t, p0, c) == Eq(Mul(t.P[c], p0.f[c]), Mul(t.f[c], p0.P[c]), Mul(t.P[c], p0.f[c]))
\* the call returns iff every grid point including the look-ahead point of the last iteration is a fraction
\* (a recursive FUNCTION, not a RECURSIVE operator: tlapm does not read the latter)
GridPoint(x0, dx, j) == LET g[k \in Nat] == IF k = 0 THEN x0 ELSE Add(g[k - 1], dx) IN g[j]
ReturnsByGrid(x0, dx, N) == \A j \in 0..(N + 1) : ValidFraction(GridPoint(x0, dx, j))
=============================================================================
