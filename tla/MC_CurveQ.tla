------------------------------ MODULE MC_CurveQ ------------------------------
(***************************************************************************)
(* Leg A for C09 with exact rationals.  A curve point is built from         *)
(* fluxes that sit exactly on a fixed point of the solver (J chosen, the    *)
(* feed pressures derived from J = P (.) (pf - pp(Y(J)))), under vacuum,    *)
(* a permeate pressure, or an ideal permeate at a fixed temperature; the    *)
(* inversion returns the permeances exactly when both directions use the    *)
(* same basis for p * fraction, and does not with the molar inversion (D7). *)
(* A curve built from permeances in any unit exposes kg units, its fluxes   *)
(* are P (.) pf and re-inverting them gives the permeances back.            *)
(***************************************************************************)
EXTENDS Integers, Sequences, TLC, Q
CONSTANT Inversion        \* "same_basis" | "as_implemented"
C == INSTANCE Curve WITH Add <- QAdd, Sub <- QSub, Mul <- QMul, Div <- QDiv, Lt <- QLt, Le <- QLe, Eq <- QEq, Dec <- QLit
U == INSTANCE Units WITH Add <- QAdd, Sub <- QSub, Mul <- QMul, Div <- QDiv, Lt <- QLt, Le <- QLe, Eq <- QEq, Dec <- QLit

M1 == QLit("18.02")
M2 == QLit("46.07")
VARIABLES how, P, j, pf, mode, p, s, units, Pout, jout, pc
vars == <<how, P, j, pf, mode, p, s, units, Pout, jout, pc>>
PPof(yy) == IF mode = "vac" THEN <<QLit("0"), QLit("0")>>
            ELSE IF mode = "press" THEN C!PPressMass(p, yy)
            ELSE <<QMul(s[1], yy), QMul(s[2], QSub(QLit("1"), yy))>>
PPinv(yy) == IF mode = "press" /\ Inversion = "as_implemented" THEN C!PPressMolar(p, yy, M1, M2) ELSE PPof(yy)

Init == /\ how \in {"from_fluxes", "from_permeances"}
        /\ P \in {<<QLit("0.05"), QLit("0.0004")>>, <<QLit("1"), QLit("1")>>}
        /\ mode \in {"vac", "press", "ideal"} /\ p \in {QLit("0"), QLit("2.5")} /\ s \in {<<QLit("3"), QLit("7")>>}
        /\ units \in U!Known
        /\ \E ystar \in {QRat(1, 10), QRat(2, 3)}, jt \in {QLit("0.4")} :
             j = <<QMul(ystar, jt), QMul(QSub(QLit("1"), ystar), jt)>>
        /\ pf = <<QLit("0"), QLit("0")>> /\ Pout = <<>> /\ jout = <<>> /\ pc = "new"
\* derive the feed pressures for which j is the solver's exact answer for P
Prepare == /\ pc = "new"
           /\ pf' = (IF how = "from_fluxes"
                     THEN <<QAdd(QDiv(j[1], P[1]), PPof(C!Y(j))[1]), QAdd(QDiv(j[2], P[2]), PPof(C!Y(j))[2])>>
                     ELSE <<QLit("30"), QLit("12")>>)
           /\ pc' = "ready" /\ UNCHANGED <<how, P, j, mode, p, s, units, Pout, jout>>
Pin == <<U!ConvertV(P[1], U!KG, units, M1), U!ConvertV(P[2], U!KG, units, M2)>>     \* the permeances as supplied
Build == /\ pc = "ready"
         /\ IF how = "from_fluxes"
            THEN Pout' = C!Invert(j, pf, PPinv(C!Y(j))) /\ jout' = j
            ELSE /\ Pout' = <<U!ConvertV(Pin[1], units, U!KG, M1), U!ConvertV(Pin[2], units, U!KG, M2)>>
                 /\ jout' = C!FluxesFromPermeances(Pout', pf)
         /\ pc' = "built" /\ UNCHANGED <<how, P, j, pf, mode, p, s, units>>
Reinvert == /\ pc = "built" /\ how = "from_permeances"
            /\ Pout' = C!InvertVacuum(jout, pf) /\ pc' = "reinverted"
            /\ UNCHANGED <<how, P, j, pf, mode, p, s, units, jout>>
Next == Prepare \/ Build \/ Reinvert
Spec == Init /\ [][Next]_vars

Inv_InvertsForward == (pc = "built" /\ how = "from_fluxes") => Pout = P
Inv_UnitsNormalised == (pc \in {"built", "reinverted"} /\ how = "from_permeances") => Pout = P
Inv_Fluxes == (pc = "built" /\ how = "from_permeances") => jout = <<QMul(P[1], pf[1]), QMul(P[2], pf[2])>>
=============================================================================
