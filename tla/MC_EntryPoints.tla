--------------------------- MODULE MC_EntryPoints ---------------------------
EXTENDS EntryPoints, TLC, Json, IOUtils
\* leg C: the full entry x model x mode table is written out for the harness to instantiate on the real code
RECURSIVE SetToSeqR(_)
SetToSeqR(S) == IF S = {} THEN <<>> ELSE LET x == CHOOSE x \in S : TRUE IN <<x>> \o SetToSeqR(S \ {x})
ASSUME IF "COMBO_FILE" \in DOMAIN IOEnv THEN ndJsonSerialize(IOEnv.COMBO_FILE, SetToSeqR(Combos)) ELSE TRUE
=============================================================================
