SPECIFICATION SimSpec
CONSTANT Entries <- EntrySet
CONSTANT Objects <- ObjectSet
CONSTANT Editable <- EditSet
CONSTANT Stale = {}
CONSTANT MaxSteps = 10
CHECK_DEADLOCK FALSE
