SPECIFICATION Spec
CONSTANT Dev = "raw_x"
INVARIANT Inv_Complete
INVARIANT Inv_OrderKept
INVARIANT Inv_BasisFree
CHECK_DEADLOCK FALSE
