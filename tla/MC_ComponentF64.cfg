SPECIFICATION Spec
CONSTANT Deviation = "none"
INVARIANT Inv_CC_FiniteDifference
INVARIANT Inv_CC_Analytic
INVARIANT Inv_PsatPositive
CHECK_DEADLOCK FALSE
