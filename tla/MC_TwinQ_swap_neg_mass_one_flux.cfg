SPECIFICATION Spec
CONSTANT Rel = "swap"
CONSTANT K = "3/2"
CONSTANT DevB = "mass_one_flux"
INVARIANT Inv_Together
INVARIANT Inv_SameGuards
INVARIANT Inv_Related
CHECK_DEADLOCK FALSE
