package tlc2.module;

import tlc2.value.impl.BoolValue;
import tlc2.value.impl.IntValue;
import tlc2.value.impl.StringValue;
import tlc2.value.impl.TupleValue;
import tlc2.value.impl.Value;

/**
 * IEEE-754 binary64 arithmetic for TLC. A double is the TLA+ tuple <<hi, lo>> of its
 * two signed 32-bit halves, so TLA+ equality is bit equality and values fingerprint
 * like any other tuple. + - * / sqrt are bit-identical to CPython; exp/log/pow use
 * StrictMath (fdlibm), within 1-2 ulp of numpy/glibc.
 */
public class F64 {
  public static final long serialVersionUID = 20261003L;

  static double d(Value v) {
    if (v instanceof IntValue) return (double) ((IntValue) v).val;   // tolerate TLA+ integers
    TupleValue t = (TupleValue) v.toTuple();
    if (t == null || t.elems.length != 2)
      throw new IllegalArgumentException("F64: not a double <<hi,lo>>: " + v);
    long hi = ((IntValue) t.elems[0]).val;
    long lo = ((IntValue) t.elems[1]).val;
    return Double.longBitsToDouble((hi << 32) | (lo & 0xFFFFFFFFL));
  }

  static Value f(double x) {
    long b = Double.doubleToRawLongBits(x);
    return new TupleValue(IntValue.gen((int) (b >> 32)), IntValue.gen((int) b));
  }

  static Value b(boolean x) { return x ? BoolValue.ValTrue : BoolValue.ValFalse; }

  public static Value Lit(final StringValue s) {
    String t = s.val.toString();
    if (t.equals("nan")) return f(Double.NaN);
    if (t.equals("inf")) return f(Double.POSITIVE_INFINITY);
    if (t.equals("-inf")) return f(Double.NEGATIVE_INFINITY);
    return f(Double.parseDouble(t));
  }
  public static Value FromInt(final IntValue i) { return f((double) i.val); }
  public static Value FRat(final IntValue n, final IntValue dd) { return f((double) n.val / (double) dd.val); }
  public static Value FAdd(final Value a, final Value c) { return f(d(a) + d(c)); }
  public static Value FSub(final Value a, final Value c) { return f(d(a) - d(c)); }
  public static Value FMul(final Value a, final Value c) { return f(d(a) * d(c)); }
  public static Value FDiv(final Value a, final Value c) { return f(d(a) / d(c)); }
  public static Value FNeg(final Value a) { return f(-d(a)); }
  public static Value FAbs(final Value a) { return f(Math.abs(d(a))); }
  public static Value FSqrt(final Value a) { return f(Math.sqrt(d(a))); }
  public static Value FExp(final Value a) { return f(StrictMath.exp(d(a))); }
  public static Value FLog(final Value a) { return f(StrictMath.log(d(a))); }
  public static Value FPow(final Value a, final Value c) { return f(StrictMath.pow(d(a), d(c))); }
  public static Value FPow10(final Value a) { return f(StrictMath.pow(10.0, d(a))); }
  public static Value FPowInt(final Value a, final IntValue n) { return f(StrictMath.pow(d(a), (double) n.val)); }
  public static Value FMax(final Value a, final Value c) { return f(Math.max(d(a), d(c))); }
  public static Value FMin(final Value a, final Value c) { return f(Math.min(d(a), d(c))); }
  public static Value FLt(final Value a, final Value c) { return b(d(a) < d(c)); }
  public static Value FLe(final Value a, final Value c) { return b(d(a) <= d(c)); }
  public static Value FEqNum(final Value a, final Value c) { return b(d(a) == d(c)); }
  public static Value FIsFinite(final Value a) { double x = d(a); return b(!Double.isNaN(x) && !Double.isInfinite(x)); }
  public static Value FIsNaN(final Value a) { return b(Double.isNaN(d(a))); }
  /** |a-b| <= rel * max(|a|,|b|)  (also true when both are exactly equal, incl. both zero) */
  public static Value FClose(final Value a, final Value c, final Value rel) {
    double x = d(a), y = d(c), r = d(rel);
    if (x == y) return BoolValue.ValTrue;
    return b(Math.abs(x - y) <= r * Math.max(Math.abs(x), Math.abs(y)));
  }
  /** |a-b| <= rel * max(|scale|,|a|,|b|) */
  public static Value FCloseS(final Value a, final Value c, final Value scale, final Value rel) {
    double x = d(a), y = d(c), s = Math.abs(d(scale)), r = d(rel);
    if (x == y) return BoolValue.ValTrue;
    return b(Math.abs(x - y) <= r * Math.max(s, Math.max(Math.abs(x), Math.abs(y))));
  }
  /** |a-b| <= abs */
  public static Value FCloseA(final Value a, final Value c, final Value abs) {
    double x = d(a), y = d(c);
    if (x == y) return BoolValue.ValTrue;
    return b(Math.abs(x - y) <= d(abs));
  }
  /** distance in units in the last place (saturating at 2^30), for evidence / DRIFT reports */
  public static Value FUlps(final Value a, final Value c) {
    long x = Double.doubleToLongBits(d(a)), y = Double.doubleToLongBits(d(c));
    if (x < 0) x = Long.MIN_VALUE - x;
    if (y < 0) y = Long.MIN_VALUE - y;
    long diff = Math.abs(x - y);
    if (diff < 0 || diff > (1L << 30)) diff = 1L << 30;
    return IntValue.gen((int) diff);
  }
  public static Value FStr(final Value a) { return new StringValue(Double.toString(d(a))); }
  public static Value IsF64(final Value v) {
    if (!(v instanceof TupleValue)) return BoolValue.ValFalse;
    TupleValue t = (TupleValue) v;
    return b(t.elems.length == 2 && t.elems[0] instanceof IntValue && t.elems[1] instanceof IntValue);
  }
}
