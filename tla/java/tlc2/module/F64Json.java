package tlc2.module;

import java.io.BufferedReader;
import java.io.IOException;
import java.nio.file.Files;
import java.nio.file.Paths;
import java.util.ArrayList;
import java.util.List;
import java.util.Map;

import com.google.gson.JsonArray;
import com.google.gson.JsonElement;
import com.google.gson.JsonObject;
import com.google.gson.JsonParser;
import com.google.gson.JsonPrimitive;

import tlc2.value.impl.BoolValue;
import tlc2.value.impl.IntValue;
import tlc2.value.impl.RecordValue;
import tlc2.value.impl.StringValue;
import tlc2.value.impl.TupleValue;
import tlc2.value.impl.Value;
import util.UniqueString;

/**
 * ndjson reader that keeps floats: JSON numbers written with '.', 'e' or 'E' become F64
 * pairs, other numbers TLA+ integers; null becomes <<>>; the strings "#nan", "#inf",
 * "#-inf" become the corresponding non-finite doubles; objects become records, arrays
 * tuples. (The stock Json module truncates 1.5 to 1 and rejects null.)
 */
public class F64Json {
  public static final long serialVersionUID = 20261003L;

  static Value conv(JsonElement e) {
    if (e.isJsonNull()) return new TupleValue(new Value[0]);
    if (e.isJsonPrimitive()) {
      JsonPrimitive p = e.getAsJsonPrimitive();
      if (p.isBoolean()) return p.getAsBoolean() ? BoolValue.ValTrue : BoolValue.ValFalse;
      if (p.isString()) {
        String s = p.getAsString();
        if (s.equals("#nan")) return F64.f(Double.NaN);
        if (s.equals("#inf")) return F64.f(Double.POSITIVE_INFINITY);
        if (s.equals("#-inf")) return F64.f(Double.NEGATIVE_INFINITY);
        return new StringValue(s);
      }
      String s = p.getAsString();
      if (s.matches("-?[0-9]+")) {
        long v = Long.parseLong(s);
        if (v >= Integer.MIN_VALUE && v <= Integer.MAX_VALUE) return IntValue.gen((int) v);
        throw new IllegalArgumentException("F64Json: integer out of 32-bit range: " + s);
      }
      return F64.f(Double.parseDouble(s));
    }
    if (e.isJsonArray()) {
      JsonArray a = e.getAsJsonArray();
      Value[] vs = new Value[a.size()];
      for (int i = 0; i < vs.length; i++) vs[i] = conv(a.get(i));
      return new TupleValue(vs);
    }
    JsonObject o = e.getAsJsonObject();
    List<UniqueString> ks = new ArrayList<>();
    List<Value> vs = new ArrayList<>();
    for (Map.Entry<String, JsonElement> en : o.entrySet()) {
      ks.add(UniqueString.uniqueStringOf(en.getKey()));
      vs.add(conv(en.getValue()));
    }
    return new RecordValue(ks.toArray(new UniqueString[0]), vs.toArray(new Value[0]), false);
  }

  public static Value F64NdJson(final StringValue path) throws IOException {
    List<Value> out = new ArrayList<>();
    try (BufferedReader r = Files.newBufferedReader(Paths.get(path.val.toString()))) {
      String line;
      while ((line = r.readLine()) != null) {
        if (line.isBlank()) continue;
        out.add(conv(JsonParser.parseString(line)));
      }
    }
    return new TupleValue(out.toArray(new Value[0]));
  }
}
