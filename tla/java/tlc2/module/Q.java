package tlc2.module;

import java.math.BigDecimal;
import java.math.BigInteger;

import tlc2.value.impl.BoolValue;
import tlc2.value.impl.IntValue;
import tlc2.value.impl.StringValue;
import tlc2.value.impl.Value;

/**
 * Exact rationals for TLC, arbitrary precision: a value is the canonical string "n/d"
 * (d > 0, lowest terms), so TLA+ equality is equality of rationals; computed on BigInteger.
 */
public class Q {
  public static final long serialVersionUID = 20261003L;

  static BigInteger[] q(Value v) {
    if (v instanceof IntValue) return new BigInteger[] {BigInteger.valueOf(((IntValue) v).val), BigInteger.ONE};
    String s = ((StringValue) v).val.toString();
    int k = s.indexOf('/');
    if (k < 0) throw new IllegalArgumentException("Q: not a rational: " + s);
    return new BigInteger[] {new BigInteger(s.substring(0, k)), new BigInteger(s.substring(k + 1))};
  }

  static Value mk(BigInteger n, BigInteger d) {
    if (d.signum() == 0) throw new ArithmeticException("Q: division by zero");
    if (d.signum() < 0) { n = n.negate(); d = d.negate(); }
    BigInteger g = n.gcd(d);
    if (g.signum() != 0) { n = n.divide(g); d = d.divide(g); }
    return new StringValue(n.toString() + "/" + d.toString());
  }

  public static Value QLit(final StringValue s) {
    BigDecimal b = new BigDecimal(s.val.toString());
    if (b.scale() >= 0) return mk(b.unscaledValue(), BigInteger.TEN.pow(b.scale()));
    return mk(b.unscaledValue().multiply(BigInteger.TEN.pow(-b.scale())), BigInteger.ONE);
  }
  public static Value QInt(final IntValue i) { return mk(BigInteger.valueOf(i.val), BigInteger.ONE); }
  public static Value QRat(final IntValue n, final IntValue d) { return mk(BigInteger.valueOf(n.val), BigInteger.valueOf(d.val)); }
  public static Value QAdd(final Value a, final Value b) { BigInteger[] x = q(a), y = q(b); return mk(x[0].multiply(y[1]).add(y[0].multiply(x[1])), x[1].multiply(y[1])); }
  public static Value QSub(final Value a, final Value b) { BigInteger[] x = q(a), y = q(b); return mk(x[0].multiply(y[1]).subtract(y[0].multiply(x[1])), x[1].multiply(y[1])); }
  public static Value QMul(final Value a, final Value b) { BigInteger[] x = q(a), y = q(b); return mk(x[0].multiply(y[0]), x[1].multiply(y[1])); }
  public static Value QDiv(final Value a, final Value b) { BigInteger[] x = q(a), y = q(b); return mk(x[0].multiply(y[1]), x[1].multiply(y[0])); }
  public static Value QNeg(final Value a) { BigInteger[] x = q(a); return mk(x[0].negate(), x[1]); }
  public static Value QAbs(final Value a) { BigInteger[] x = q(a); return mk(x[0].abs(), x[1]); }
  public static Value QLt(final Value a, final Value b) { BigInteger[] x = q(a), y = q(b); return x[0].multiply(y[1]).compareTo(y[0].multiply(x[1])) < 0 ? BoolValue.ValTrue : BoolValue.ValFalse; }
  public static Value QLe(final Value a, final Value b) { BigInteger[] x = q(a), y = q(b); return x[0].multiply(y[1]).compareTo(y[0].multiply(x[1])) <= 0 ? BoolValue.ValTrue : BoolValue.ValFalse; }
  public static Value QIsZero(final Value a) { return q(a)[0].signum() == 0 ? BoolValue.ValTrue : BoolValue.ValFalse; }
  public static Value QStr(final Value a) { BigInteger[] x = q(a); return new StringValue(x[0] + "/" + x[1]); }
}
