------------------------------ MODULE Trace_Entry ------------------------------
(***************************************************************************)
(* Leg B/C for C08: one trace per question (membrane, mixture, feed state,  *)
(* permeate condition, precision, activity model):                          *)
(*  Question{model, mode, T, x_in, basis, xw, prec, Jstd}  Jstd: standalone  *)
(*  Answer{entry, raised, hasJ, J, hasY, y, hasSf, sf, sf_inverted, hasPsi, psi} *)
(* for every entry point of the TLC-enumerated table.                       *)
(***************************************************************************)
EXTENDS Integers, Sequences, TLC, F64, F64Json, IOUtils
Trace == F64NdJson(IOEnv.TRACE_FILE)
EqR(a, b, s) == FCloseS(a, b, s, Lit("1e-9"))
VARIABLE l
Starts == {j \in 1..Len(Trace) : Trace[j].i = 0}
Init == l \in Starts
Next == l < Len(Trace) /\ Trace[l + 1].i > 0 /\ l' = l + 1
Spec == Init /\ [][Next]_l
E == Trace[l]
O == Trace[l - E.i]
One == Lit("1.0")
IsAns == E.ev = "Answer" /\ ~E.raised
Tot == FAdd(FAbs(O.Jstd[1]), FAbs(O.Jstd[2]))
Ystd == FDiv(O.Jstd[1], FAdd(O.Jstd[1], O.Jstd[2]))
Cond(yy) == FAdd(One, FDiv(Lit("1e-6"), FMax(FMin(yy, FSub(One, yy)), Lit("1e-300"))))
\* separation factor (y1/y2)/(x1/x2) in the mass basis
SfStd == FDiv(FDiv(Ystd, FSub(One, Ystd)), FDiv(O.xw, FSub(One, O.xw)))

KnownEvent == E.ev \in {"Question", "Answer"}
Cl_SameFluxes == (IsAns /\ E.hasJ) => EqR(E.J[1], O.Jstd[1], Tot) /\ EqR(E.J[2], O.Jstd[2], Tot)
Cl_YFromFluxes == (IsAns /\ E.hasY) => EqR(E.y, Ystd, One)
Cl_SepFactorDef == (IsAns /\ E.hasSf) => EqR(E.sf, SfStd, FMul(SfStd, Cond(Ystd)))
Cl_PsiDef == (IsAns /\ E.hasPsi) => EqR(E.psi, FMul(FAdd(O.Jstd[1], O.Jstd[2]), FSub(SfStd, One)),
                                         FMul(FMul(Tot, FMax(SfStd, One)), Cond(Ystd)))
Ref_Outcome == (E.ev = "Answer") => ~E.raised
=============================================================================
