---------------------------- MODULE MC_FluxSolverQ ----------------------------
(***************************************************************************)
(* Leg A for C02/C10 with exact rationals.  Permeate-side pressures are     *)
(*   vacuum:    <<0, 0>>                                                    *)
(*   pressure:  <<p y, p (1-y)>>                 exactly the code's formula *)
(*   ideal:     <<s1 y, s2 (1-y)>>    an ideal (Raoult) permeate at a fixed *)
(*              temperature: the affine special case of the temperature mode *)
(* The machine refines the abstract loop (FluxLoopAbstract), so it          *)
(* terminates within the bound; at "returned" the law, the pressure         *)
(* identity and the vacuum identity hold exactly; scaling both permeances   *)
(* by k scales the fluxes by k and leaves y and the iteration count alone.  *)
(***************************************************************************)
EXTENDS Integers, Sequences, TLC, Q
CONSTANTS Bounded, MaxIter, Deviation     \* Deviation: "none" | "drop_p2" | "no_final"
VARIABLES inp, y, d, n, pc, J

PP(i, yy) ==
  IF i.mode = "vac" THEN <<QLit("0"), QLit("0")>>
  ELSE IF i.mode = "press"
       THEN (IF Deviation = "drop_p2" THEN <<QMul(i.p, yy), QLit("0")>>
             ELSE <<QMul(i.p, yy), QMul(i.p, QSub(QLit("1"), yy))>>)
       ELSE <<QMul(i.s[1], yy), QMul(i.s[2], QSub(QLit("1"), yy))>>

S == INSTANCE FluxSolver WITH Add <- QAdd, Sub <- QSub, Mul <- QMul, Div <- QDiv, Lt <- QLt, Le <- QLe,
                              Eq <- QEq, Dec <- QLit, PermPress <- PP

Inputs ==
  [P1: {QLit("1"), QLit("0.01")}, P2: {QLit("0.5")}, prec: {QLit("0.001"), QLit("0.00001")},
   pf: {<<QLit("30"), QLit("10")>>, <<QLit("5"), QLit("40")>>},
   mode: {"vac"}, p: {QLit("0")}, s: {<<QLit("0"), QLit("0")>>}]
  \cup
  [P1: {QLit("1"), QLit("0.01")}, P2: {QLit("0.5")}, prec: {QLit("0.001"), QLit("0.00001")},
   pf: {<<QLit("30"), QLit("10")>>, <<QLit("5"), QLit("40")>>},
   mode: {"press"}, p: {QLit("0"), QLit("1"), QLit("4")}, s: {<<QLit("0"), QLit("0")>>}]
  \cup
  [P1: {QLit("1"), QLit("0.01")}, P2: {QLit("0.5")}, prec: {QLit("0.001"), QLit("0.00001")},
   pf: {<<QLit("30"), QLit("10")>>, <<QLit("5"), QLit("40")>>},
   mode: {"ideal"}, p: {QLit("0")}, s: {<<QLit("3"), QLit("1")>>, <<QLit("2"), QLit("8")>>}]

Init == inp \in Inputs /\ y = QLit("0") /\ d = QLit("1") /\ n = 0 /\ pc = "start" /\ J = <<QLit("0"), QLit("0")>>
ExitNoFinal == /\ pc = "loop" /\ ~S!Continue(d, inp.prec)      \* wrong design: returns the fluxes of the previous iterate
               /\ J' = <<QMul(inp.P1, inp.pf[1]), QMul(inp.P2, inp.pf[2])>>
               /\ pc' = "returned" /\ UNCHANGED <<inp, y, d, n>>
Next == IF Deviation = "no_final" THEN S!Seed \/ S!Iterate \/ S!GiveUp \/ ExitNoFinal ELSE S!Next
Spec == Init /\ [][Next]_S!vars /\ WF_S!vars(Next)

\* refinement of the abstract loop
A == INSTANCE FluxLoopAbstract WITH dcls <- IF S!Continue(d, inp.prec) THEN "big" ELSE "small"
Refines == A!ASpec

K == QLit("3.7")
Scaled(i) == [i EXCEPT !.P1 = QMul(K, @), !.P2 = QMul(K, @)]
Inv_Law          == S!Law(QLit("1"))
Inv_ExitBelow    == S!ExitedBelowPrecision
Inv_Bounded      == S!BoundedEvaluations
Inv_VacuumExact  == (pc = "returned" /\ (inp.mode = "vac" \/ (inp.mode = "press" /\ inp.p = QLit("0")))) =>
                      J = <<QMul(inp.P1, inp.pf[1]), QMul(inp.P2, inp.pf[2])>>
Inv_PPIdentity   == (pc = "returned" /\ inp.mode = "press") =>
                      QAdd(QDiv(J[1], inp.P1), QDiv(J[2], inp.P2)) = QSub(QAdd(inp.pf[1], inp.pf[2]), inp.p)
Inv_FunctionAgrees == (pc = "returned") => (S!Solve(inp).J = J /\ S!Solve(inp).n = n /\ S!Solve(inp).y = y)
Inv_Homogeneous  == (pc = "start") =>
                      LET a == S!Solve(inp)
                          b == S!Solve(Scaled(inp))
                      IN /\ a.pc = b.pc /\ a.y = b.y /\ a.n = b.n
                         /\ (a.pc = "returned" => b.J = <<QMul(K, a.J[1]), QMul(K, a.J[2])>>)
Terminates == <>S!Done
=============================================================================
