SPECIFICATION Spec
INVARIANT KnownEvent
INVARIANT Cl_Terminates
INVARIANT Cl_TwinTerminates
INVARIANT Cl_ModelTerminates
INVARIANT Step_Seed
INVARIANT Step_Iterate
INVARIANT Step_LoopRule
INVARIANT Step_Final
CHECK_DEADLOCK FALSE
