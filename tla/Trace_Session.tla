------------------------------ MODULE Trace_Session ------------------------------
(* Leg B/C for C20: SessStart{objects, builtins}; SessCall{entry, before, after, builtins_before, builtins_after, result, fresh}  *)
(* objects/before/after: name -> deep digest of the shared argument object; result/fresh: digest of the call's result and of the  *)
(* same call made first in a pristine process.                                                                                   *)
EXTENDS Integers, Sequences, TLC, F64Json, IOUtils
Trace == F64NdJson(IOEnv.TRACE_FILE)
VARIABLE l
Starts == {j \in 1..Len(Trace) : Trace[j].i = 0}
Init == l \in Starts
Next == l < Len(Trace) /\ Trace[l + 1].i > 0 /\ l' = l + 1
Spec == Init /\ [][Next]_l
E == Trace[l]
O == Trace[l - E.i]
IsCall == E.ev = "SessCall"
KnownEvent == E.ev \in {"SessStart", "SessCall", "EditSessStart", "EditSessCall"}
Cl_ArgsUnchanged == IsCall => (E.after = E.before /\ E.before = O.objects)
Cl_BuiltinsUnchanged == IsCall => (E.builtins_after = E.builtins_before /\ E.builtins_before = O.builtins)
Cl_SameAsFresh == IsCall => E.result = E.fresh
\* sessions with the caller's own in-place edits (SessionEdit.tla): a call keeps what the objects hold - which is what a pristine
\* process holds after building the same objects and applying the same edits - and answers as that pristine process does
IsECall == E.ev = "EditSessCall"
Cl_CallsKeepHeld == IsECall => (E.after = E.before /\ E.before = E.expected /\ E.builtins_after = O.builtins)
Cl_SameAsFreshOnHeld == IsECall => E.result = E.fresh
=============================================================================
