SPECIFICATION Spec
INVARIANT KnownEvent
INVARIANT Cl_ArgsUnchanged
INVARIANT Cl_BuiltinsUnchanged
INVARIANT Cl_SameAsFresh
CHECK_DEADLOCK FALSE
