SPECIFICATION Spec
INVARIANT KnownEvent
INVARIANT Cl_ArgsUnchanged
INVARIANT Cl_BuiltinsUnchanged
INVARIANT Cl_SameAsFresh
INVARIANT Cl_CallsKeepHeld
INVARIANT Cl_SameAsFreshOnHeld
CHECK_DEADLOCK FALSE
