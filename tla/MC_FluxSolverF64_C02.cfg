SPECIFICATION Spec
CONSTANT Bounded = TRUE
CONSTANT MaxIter = 400
INVARIANT Inv_Law
INVARIANT Inv_ExitBelow
INVARIANT Inv_Bounded
CHECK_DEADLOCK FALSE
