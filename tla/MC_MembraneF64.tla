--------------------------- MODULE MC_MembraneF64 ---------------------------
(***************************************************************************)
(* Leg A for C12: experiments lying exactly on an Arrhenius line are added  *)
(* to a membrane one at a time, in any order (1..3 of 4 temperatures), with *)
(* the activation energy stated or not.  At every state, for every query    *)
(* temperature: a query at an experiment returns the measured value, any    *)
(* other query lies on the line whichever experiment is nearest, and the    *)
(* regression recovers Ea.  IEEE arithmetic.                                *)
(***************************************************************************)
EXTENDS Integers, Sequences, TLC, F64
CONSTANT Deviation      \* "none" | "sign" | "no_R"

EqT(x, y, s) == FCloseS(x, y, s, Lit("1e-9"))
M == INSTANCE Membrane WITH Add <- FAdd, Sub <- FSub, Mul <- FMul, Div <- FDiv, Lt <- FLt, Le <- FLe,
                            Eq <- EqT, Dec <- Lit, Exp <- FExp, Ln <- FLog, Pow10 <- FPow10, Num <- FromInt

ExpTemps == {Lit("273.15"), Lit("300.0"), Lit("333.15"), Lit("373.15")}
Queries  == ExpTemps \cup {Lit("260.0"), Lit("290.0"), Lit("316.5"), Lit("350.0"), Lit("420.0")}
Energies == {Lit("-60000.0"), Lit("0.0"), Lit("40000.0"), Lit("120000.0")}
T0 == Lit("300.0")
P0 == Lit("0.05")
Line(ea, T) == FMul(P0, M!ArrheniusFactor(ea, T, T0))       \* the true Arrhenius line

VARIABLES exps, ea, stated
vars == <<exps, ea, stated>>
Mk(T) == [T |-> T, P |-> Line(ea, T), hasEa |-> stated, Ea |-> ea]
Init == /\ ea \in Energies /\ stated \in BOOLEAN
        /\ \E T \in ExpTemps : exps = <<[T |-> T, P |-> FMul(P0, M!ArrheniusFactor(ea, T, T0)), hasEa |-> stated, Ea |-> ea]>>
AddExperiment == /\ Len(exps) < 3
                 /\ \E T \in ExpTemps : (\A j \in 1..Len(exps) : exps[j].T # T) /\ exps' = Append(exps, Mk(T))
                 /\ UNCHANGED <<ea, stated>>
Next == AddExperiment
Spec == Init /\ [][Next]_vars

\* the permeance function under test: the specification's, or a named wrong design
Perm(T) ==
  IF Deviation = "none" THEN M!Permeance(exps, T)
  ELSE LET e == exps[M!Nearest(exps, T)]
           a == IF e.hasEa THEN e.Ea ELSE M!ActivationEnergy(exps).v
       IN IF e.T = T THEN M!Ok(e.P)
          ELSE IF ~e.hasEa /\ M!ActivationEnergy(exps).raise THEN M!Raise
          ELSE IF Deviation = "sign"
               THEN M!Ok(FMul(e.P, FExp(FMul(FDiv(a, M!R), FSub(FDiv(Lit("1.0"), T), FDiv(Lit("1.0"), e.T))))))
               ELSE M!Ok(FMul(e.P, FExp(FMul(FNeg(a), FSub(FDiv(Lit("1.0"), T), FDiv(Lit("1.0"), e.T))))))

Inv_AtExperiment == \A q \in Queries : M!AtExperiment(exps, q, Perm(q))
Inv_ArrheniusLaw == \A q \in Queries : M!ArrheniusLaw(exps, q, Perm(q), M!ActivationEnergy(exps))
Inv_OnTheLine    == \A q \in Queries :
                      IF Perm(q).raise THEN Len(exps) = 1 /\ ~stated /\ exps[1].T # q
                      ELSE EqT(Perm(q).v, Line(ea, q), Line(ea, q))
Inv_RecoversEa   == (Len(exps) >= 2) => EqT(M!ActivationEnergy(exps).v, ea, FMax(FAbs(ea), Lit("1000.0")))
Inv_RaisesWhenUnderdetermined == (Len(exps) = 1 /\ ~stated) <=> M!ActivationEnergy(exps).raise
=============================================================================
