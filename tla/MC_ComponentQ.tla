---------------------------- MODULE MC_ComponentQ ----------------------------
(***************************************************************************)
(* Leg A for C13 (polynomial part, exact rationals): an interval [t1, t0]   *)
(* is cut into pieces in any order; the cooling heats of the pieces always  *)
(* add up to that of the whole, each piece is the Simpson integral of Cp,   *)
(* is antisymmetric, and the derivative identity holds at every cut.        *)
(***************************************************************************)
EXTENDS Integers, Sequences, TLC, Q
CONSTANT Deviation     \* "none" | "no_half" (b-term not halved) | "cube_as_square"

K == INSTANCE Component WITH Add <- QAdd, Sub <- QSub, Mul <- QMul, Div <- QDiv, Lt <- QLt, Le <- QLe,
                             Eq <- QEq, Dec <- QLit, Exp <- QNoFn, Ln <- QNoFn, Pow10 <- QNoFn

HCs == { [a |-> QLit("32.2"), b |-> QLit("1.924e-3"), c |-> QLit("1.055e-5"), d |-> QLit("-3.596e-9")],
         [a |-> QLit("147.8"), b |-> QLit("-0.673"), c |-> QLit("0.00189"), d |-> QLit("0")],
         [a |-> QLit("-5"), b |-> QLit("2"), c |-> QLit("-3"), d |-> QLit("7")],
         [a |-> QLit("0"), b |-> QLit("0"), c |-> QLit("0"), d |-> QLit("1")] }
Temps == {QLit("200"), QLit("273.15"), QLit("300"), QLit("333.3"), QLit("400"), QLit("500")}

Cool(hc, t0, t1) ==
  IF Deviation = "no_half"
    THEN QAdd(K!Cooling(hc, t0, t1), QDiv(QMul(hc.b, QSub(K!Sq(t0), K!Sq(t1))), QLit("2")))
  ELSE IF Deviation = "cube_as_square"
    THEN QAdd(K!Cooling(hc, t0, t1), QDiv(QMul(hc.c, QSub(K!Sq(t0), K!Cube(t0))), QLit("3")))
  ELSE K!Cooling(hc, t0, t1)

VARIABLES hc, cuts      \* cuts: strictly increasing sequence of temperatures, Head = t1, Last = t0
vars == <<hc, cuts>>

Init == /\ hc \in HCs
        /\ \E lo \in Temps, hi \in Temps : QLt(lo, hi) /\ cuts = <<lo, hi>>

Insert(s, j, t) == SubSeq(s, 1, j) \o <<t>> \o SubSeq(s, j + 1, Len(s))
Cut == /\ Len(cuts) < 4
       /\ \E t \in Temps, j \in 1..(Len(cuts) - 1) :
            /\ QLt(cuts[j], t) /\ QLt(t, cuts[j + 1])
            /\ cuts' = Insert(cuts, j, t)
       /\ UNCHANGED hc
Next == Cut
Spec == Init /\ [][Next]_vars

RECURSIVE SumPieces(_, _)
SumPieces(s, j) == IF j >= Len(s) THEN QLit("0") ELSE QAdd(Cool(hc, s[j + 1], s[j]), SumPieces(s, j + 1))
Mid(x, y) == QDiv(QAdd(x, y), QLit("2"))
H == QLit("0.5")

Inv_Additive == SumPieces(cuts, 1) = Cool(hc, cuts[Len(cuts)], cuts[1])
Inv_Integral == \A j \in 1..(Len(cuts) - 1) :
                  K!IsIntegral(Cool(hc, cuts[j + 1], cuts[j]), cuts[j + 1], cuts[j],
                               K!Cp(hc, cuts[j + 1]), K!Cp(hc, Mid(cuts[j], cuts[j + 1])), K!Cp(hc, cuts[j]), QLit("1"))
Inv_Antisym  == \A j \in 1..(Len(cuts) - 1) :
                  K!Antisymmetric(Cool(hc, cuts[j + 1], cuts[j]), Cool(hc, cuts[j], cuts[j + 1]), QLit("1"))
Inv_Zero     == \A j \in 1..Len(cuts) : K!ZeroOnEmpty(Cool(hc, cuts[j], cuts[j]))
Inv_Derivative == \A j \in 1..Len(cuts) :
                  K!Derivative(Cool(hc, QAdd(cuts[j], H), cuts[1]), Cool(hc, QSub(cuts[j], H), cuts[1]), H,
                               K!Cp(hc, cuts[j]), K!Cp2(hc, cuts[j]), QLit("1"))
=============================================================================
