SPECIFICATION SimSpec
CONSTANT Names = {"a", "b", "c"}
CONSTANT Models = {"m1", "m2", "m3", "m4"}
CONSTANT Rename = FALSE
CONSTANT Overwrite = FALSE
CONSTANT MaxSaves = 5
CHECK_DEADLOCK FALSE
