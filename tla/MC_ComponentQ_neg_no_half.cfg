SPECIFICATION Spec
CONSTANT Deviation = "no_half"
INVARIANT Inv_Additive
INVARIANT Inv_Integral
INVARIANT Inv_Antisym
INVARIANT Inv_Zero
INVARIANT Inv_Derivative
CHECK_DEADLOCK FALSE
