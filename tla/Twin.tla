-------------------------------- MODULE Twin --------------------------------
(***************************************************************************)
(* Relations between the answers to one question asked in two related forms *)
(* (C06 relabelling of the components, C07 mole/mass input basis, C11 size  *)
(* scaling and area/time trade-off).  a, b: the two answers.                *)
(***************************************************************************)
EXTENDS Integers, Sequences
CONSTANTS Add(_,_), Sub(_,_), Mul(_,_), Div(_,_), Lt(_,_), Le(_,_), Eq(_,_,_), Dec(_)

One == Dec("1")
Zero == Dec("0")
Abs(v) == IF Lt(v, Zero) THEN Sub(Zero, v) ELSE v
Mag2(p) == Add(Abs(p[1]), Abs(p[2]))

Same(a, b, scale)       == Eq(a, b, scale)
Same2(a, b)             == Eq(a[1], b[1], Mag2(a)) /\ Eq(a[2], b[2], Mag2(a))
Swapped2(a, b)          == Eq(b[1], a[2], Mag2(a)) /\ Eq(b[2], a[1], Mag2(a))
Complement(a, b)        == Eq(b, Sub(One, a), One)              \* fraction of the other component
Inverse(a, b)           == Eq(Mul(a, b), One, One)              \* separation factor / selectivity invert
TimesK(a, b, k)         == Eq(b, Mul(k, a), Mul(k, a))

\* one reported process step of run a and of run b, per relation
StepRel(rel, k, a, b) ==
  LET tot == Add(Abs(a.J1), Abs(a.J2))
  IN IF rel = "scale" THEN
          /\ TimesK(a.m, b.m, k) /\ TimesK(a.Qevap, b.Qevap, k) /\ TimesK(a.Qcond, b.Qcond, k)
          /\ Same(a.x, b.x, One) /\ Same(a.y, b.y, One) /\ Same(a.T, b.T, a.T)
          /\ Same(a.J1, b.J1, tot) /\ Same(a.J2, b.J2, tot) /\ Same(a.P1, b.P1, a.P1) /\ Same(a.P2, b.P2, a.P2)
          /\ Same(a.time, b.time, a.time)
     ELSE IF rel = "trade" THEN
          /\ Same(a.m, b.m, a.m) /\ Same(a.Qevap, b.Qevap, a.Qevap) /\ Same(a.Qcond, b.Qcond, a.Qcond)
          /\ Same(a.x, b.x, One) /\ Same(a.y, b.y, One) /\ Same(a.T, b.T, a.T)
          /\ Same(a.J1, b.J1, tot) /\ Same(a.J2, b.J2, tot) /\ Same(a.P1, b.P1, a.P1) /\ Same(a.P2, b.P2, a.P2)
          /\ Eq(Mul(b.time, k), a.time, a.time)
     ELSE IF rel = "swap" THEN
          /\ Same(a.m, b.m, a.m) /\ Same(a.Qevap, b.Qevap, a.Qevap) /\ Same(a.Qcond, b.Qcond, a.Qcond)
          /\ Complement(a.x, b.x) /\ Complement(a.y, b.y) /\ Same(a.T, b.T, a.T)
          /\ Same(a.J1, b.J2, tot) /\ Same(a.J2, b.J1, tot) /\ Same(a.P1, b.P2, a.P1) /\ Same(a.P2, b.P1, a.P2)
          /\ Same(a.time, b.time, a.time)
     ELSE \* "rebase": the same physical input in the other basis
          /\ Same(a.m, b.m, a.m) /\ Same(a.Qevap, b.Qevap, a.Qevap) /\ Same(a.Qcond, b.Qcond, a.Qcond)
          /\ Same(a.x, b.x, One) /\ Same(a.y, b.y, One) /\ Same(a.T, b.T, a.T)
          /\ Same(a.J1, b.J1, tot) /\ Same(a.J2, b.J2, tot) /\ Same(a.P1, b.P1, a.P1) /\ Same(a.P2, b.P2, a.P2)
          /\ Same(a.time, b.time, a.time)
\* fluxes at step 0 never depend on area, feed amount or step length
Step0Fluxes(a, b) == LET tot == Add(Abs(a.J1), Abs(a.J2)) IN Same(a.J1, b.J1, tot) /\ Same(a.J2, b.J2, tot)
=============================================================================
