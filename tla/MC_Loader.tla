------------------------------ MODULE MC_Loader ------------------------------
EXTENDS Loader, TLC, Json, IOUtils, Sequences
\* leg C: every layout of the membrane directory, with the specification's verdict, for the harness to build and load
AllLayouts == {f \in Layouts : WellFormed(f)}
EntrySeq(f) == LET RECURSIVE Go(_)
                   Go(S) == IF S = {} THEN <<>> ELSE LET x == CHOOSE x \in S : TRUE IN <<[name |-> x, kind |-> f.entries[x]]>> \o Go(S \ {x})
               IN Go(DOMAIN f.entries)
LayoutRow(f) == [csv |-> f.csv, hasSets |-> f.hasSets, results |-> f.results, entries |-> EntrySeq(f),
                 outcome |-> Outcome(f), hasIE |-> Object(f).hasIE, nsets |-> Cardinality(Object(f).sets),
                 resultsAfter |-> After(f).results]
RECURSIVE SetToSeqR(_)
SetToSeqR(S) == IF S = {} THEN <<>> ELSE LET x == CHOOSE x \in S : TRUE IN <<LayoutRow(x)>> \o SetToSeqR(S \ {x})
ASSUME IF "LAYOUT_FILE" \in DOMAIN IOEnv THEN ndJsonSerialize(IOEnv.LAYOUT_FILE, SetToSeqR(AllLayouts)) ELSE TRUE
=============================================================================
