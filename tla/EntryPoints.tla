----------------------------- MODULE EntryPoints -----------------------------
(***************************************************************************)
(* The public entry points that answer "what are the fluxes for this        *)
(* membrane, mixture, feed state, permeate condition, precision and         *)
(* activity model?" (pyvaporation/pervaporation/pervaporation.py:84-266 and *)
(* step 0 of the four process models), as a session in which they are       *)
(* called in any order.  The solver is one shared, uninterpreted operator   *)
(* Solve(model, mode): every entry point must forward its arguments to it.  *)
(***************************************************************************)
EXTENDS Integers, Sequences, FiniteSets
CONSTANTS Deviation        \* "none" | "helper_drops_model" (defect D2: calculation_type passed positionally)
VARIABLES asked, answers   \* asked: the question of this session; answers: entry -> answer

Entries == {"standalone", "permeate_composition", "separation_factor", "ideal_curve",
            "ideal_iso_step0", "ideal_noniso_step0", "nonideal_iso_step0", "nonideal_noniso_step0"}
Models  == {"NRTL", "UNIQUAC"}
Modes   == {"vac", "temp", "press"}
Combos  == [entry : Entries, model : Models, mode : Modes]

Solve(model, mode) == <<"fluxes", model, mode>>          \* uninterpreted: distinct arguments, distinct answers
\* what the entry point hands to the solver
Forwarded(entry, model) ==
  IF Deviation = "helper_drops_model" /\ entry \in {"permeate_composition", "separation_factor", "ideal_curve"}
  THEN "NRTL"                                            \* the model lands in the permeance slot; the default is used
  ELSE model
Answer(entry, model, mode) == Solve(Forwarded(entry, model), mode)

Init == asked \in [model : Models, mode : Modes] /\ answers = [e \in {} |-> 0]
Call(e) == /\ e \notin DOMAIN answers
           /\ answers' = [x \in DOMAIN answers \cup {e} |-> IF x = e THEN Answer(e, asked.model, asked.mode) ELSE answers[x]]
           /\ UNCHANGED asked
Next == \E e \in Entries : Call(e)
Spec == Init /\ [][Next]_<<asked, answers>>

\* all entry points called so far gave the answer of the standalone calculation for the question asked
SameFluxes == \A e \in DOMAIN answers : answers[e] = Solve(asked.model, asked.mode)
ModelHonoured == \A e \in DOMAIN answers : answers[e][2] = asked.model
=============================================================================
