----------------------------- MODULE Trace_Units -----------------------------
(***************************************************************************)
(* Leg B for C14: conversion chains recorded from the real Permeance class  *)
(* are behaviours of the Units specification in IEEE arithmetic.            *)
(* Lines: New{M, k, v_in, a, b} | Conv{to, hasM, outcome, a, b}             *)
(*        | Factors{M, kg_si, gpu_si, gpu_si_nocomp}                        *)
(***************************************************************************)
EXTENDS Integers, Sequences, TLC, F64, F64Json, IOUtils

Trace == F64NdJson(IOEnv.TRACE_FILE)
Tol   == Lit("1e-12")
EqTol(x, y, scale) == FCloseS(x, y, scale, Tol)

U == INSTANCE Units WITH Add <- FAdd, Sub <- FSub, Mul <- FMul, Div <- FDiv,
                         Lt <- FLt, Le <- FLe, Eq <- EqTol, Dec <- Lit

VARIABLE l
Starts == {j \in 1..Len(Trace) : Trace[j].i = 0}
Init == l \in Starts
Next == l < Len(Trace) /\ Trace[l + 1].i > 0 /\ l' = l + 1
Spec == Init /\ [][Next]_l

E   == Trace[l]
O   == Trace[l - E.i]
Pre == Trace[l - 1]
IsChain == E.ev \in {"New", "Conv"}

KnownEvent == /\ E.ev \in {"New", "Conv", "Factors", "Cross", "Twice"}
              /\ (E.ev = "Conv" => E.outcome \in {"ok", "raise"})

Step_New  == (E.ev = "New") => /\ E.a.value = U!Clamp(E.v_in)
                               /\ E.b.value = U!Clamp(FMul(E.k, E.v_in))
Step_Conv == (E.ev = "Conv") =>
               /\ U!ConvRel(Pre.a, E.to, E.hasM, O.M, E.a, E.outcome, Pre.a.value)
               /\ U!ConvRel(Pre.b, E.to, E.hasM, O.M, E.b, E.outcome, Pre.b.value)
               /\ (E.outcome = "raise" => E.a = Pre.a /\ E.b = Pre.b)

Cl_PathIndependent == IsChain => U!PathIndependent(O.a, E.a, O.M) /\ U!PathIndependent(O.b, E.b, O.M)
Cl_Invertible      == IsChain => U!Invertible(O.a, E.a) /\ U!Invertible(O.b, E.b)
Cl_Linear          == IsChain => U!Linear(E.a, E.b, O.k)
Cl_NonNegative     == IsChain => U!NonNegative(E.a) /\ U!NonNegative(E.b)
Cl_Identity        == (E.ev = "Conv" /\ E.to = Pre.a.units) => (E.outcome = "ok" /\ E.a = Pre.a)
Cl_Raises          == (E.ev = "Conv") => (U!MustRaise(Pre.a.units, E.to, E.hasM) => E.outcome = "raise")
\* two conversions with two different components: each uses the molar mass of the component it is given
Cl_CrossComponent  == (E.ev = "Cross") =>
                        LET m == U!ConvertV(E.v, E.from, U!KG, E.MA)
                            w == U!ConvertV(m, U!KG, E.to, E.MB)
                        IN ~E.raised /\ E.mid.units = U!KG /\ E.end.units = E.to
                           /\ EqTol(E.mid.value, m, m) /\ EqTol(E.end.value, w, w)
\* one object converted to one target with component A, then B, then A again: each answer uses the component it was given, and
\* the object itself is unchanged
Cl_SameObjectTwice == (E.ev = "Twice") =>
                        LET wa == U!ConvertV(E.v, E.from, E.to, E.MA)
                            wb == U!ConvertV(E.v, E.from, E.to, E.MB)
                        IN ~E.raised /\ E.first.units = E.to /\ E.second.units = E.to /\ E.again.units = E.to
                           /\ EqTol(E.first.value, wa, wa) /\ EqTol(E.second.value, wb, wb) /\ EqTol(E.again.value, wa, wa)
                           /\ E.obj.units = E.from /\ E.obj.value = E.v
Cl_Factors         == (E.ev = "Factors") => /\ U!FactorKG(E.kg_si, E.M)
                                            /\ U!FactorGPU(E.gpu_si) /\ U!FactorGPU(E.gpu_si_nocomp)
=============================================================================
