--------------------------------- MODULE Fit ---------------------------------
(***************************************************************************)
(* Curve fitting as a history machine                                       *)
(* (pyvaporation/optimizer/optimizer.py: fit, find_best_fit;                *)
(*  pyvaporation/mixtures/uniquac_fitting.py: fit_vle).                     *)
(* The caller owns a measurement list `data` (abstract points 1..n, zero    *)
(* points are negative numbers).  The optimiser is UNINTERPRETED: a fit is  *)
(* the record of what it was given, and the loss of a fit on some data is   *)
(* an arbitrary but fixed function LossOf.                                  *)
(*   Fit(n, m, iz)       one fit; with iz the fit sees data + zero points   *)
(*   Edit                the caller re-assigns a measured value in place    *)
(*   BestFit(N, M, iz)   grid n <= N, m <= M; keeps the candidate whose     *)
(*                       loss on the CALLER's data is strictly smallest     *)
(* Leaky = TRUE is the named deviation D5: the zero points are appended to  *)
(* the caller's list (shallow copy), also between the candidates of one     *)
(* best-fit search.                                                         *)
(***************************************************************************)
EXTENDS Integers, Sequences, FiniteSets
CONSTANTS Leaky, MaxOrder, MaxCalls
VARIABLES data, log, hist

vars == <<data, log, hist>>
Zeros(d) == <<-1>>                          \* one zero point per temperature (one temperature here)
Seen(d, iz) == IF iz THEN d \o Zeros(d) ELSE d
\* uninterpreted optimiser: the fit is determined by what it saw and the orders
FitOf(seen, n, m) == [n |-> n, m |-> m, seen |-> seen]
\* uninterpreted loss: any fixed function will do; this one depends on everything
LossOf(f, d) == (7 * f.n + 3 * f.m + 5 * Len(f.seen) + 11 * Len(d) + 2 * f.n * Len(d)) % 13

\* one fit as the code performs it: returns <<fit, caller data afterwards>>
DoFit(d, n, m, iz) == <<FitOf(Seen(d, iz), n, m), IF Leaky /\ iz THEN d \o Zeros(d) ELSE d>>

\* the grid search, candidate by candidate, threading the caller's data through (it only changes when Leaky)
RECURSIVE Search(_, _, _, _, _, _)
Search(cands, j, d, iz, best, bestLoss) ==
  IF j > Len(cands) THEN <<best, d>>
  ELSE LET r == DoFit(d, cands[j][1], cands[j][2], iz)
           loss == LossOf(r[1], r[2])                      \* loss on the caller's data as it is NOW
       IN IF loss < bestLoss THEN Search(cands, j + 1, r[2], iz, r[1], loss)
          ELSE Search(cands, j + 1, r[2], iz, best, bestLoss)
Grid(N, M) == LET S == {<<n, m>> : n \in 0..N, m \in 0..M}
                  RECURSIVE ToSeq(_)
                  ToSeq(T) == IF T = {} THEN <<>>
                              ELSE LET x == CHOOSE x \in T : \A z \in T : x[1] < z[1] \/ (x[1] = z[1] /\ x[2] <= z[2])
                                   IN <<x>> \o ToSeq(T \ {x})
              IN ToSeq(S)

Init == data = <<1, 2, 3>> /\ log = <<>> /\ hist = <<>>
Fit(n, m, iz) ==
  /\ Len(hist) < MaxCalls
  /\ LET r == DoFit(data, n, m, iz)
     IN /\ data' = r[2]
        /\ log' = Append(log, [call |-> "fit", n |-> n, m |-> m, iz |-> iz, before |-> data, result |-> r[1]])
  /\ hist' = Append(hist, [call |-> "fit", n |-> n, m |-> m, iz |-> iz])
BestFit(N, M, iz) ==
  /\ Len(hist) < MaxCalls
  /\ LET r == Search(Grid(N, M), 1, data, iz, FitOf(<<>>, -1, -1), 1000)
     IN /\ data' = r[2]
        /\ log' = Append(log, [call |-> "best", n |-> N, m |-> M, iz |-> iz, before |-> data, result |-> r[1]])
  /\ hist' = Append(hist, [call |-> "best", n |-> N, m |-> M, iz |-> iz])
\* the environment: between two calls the CALLER may edit a measured value in place (same object, same length) - its right
Edit ==
  /\ Len(hist) < MaxCalls /\ Len(data) >= 1
  /\ data' = [data EXCEPT ![1] = @ + 10]
  /\ log' = log
  /\ hist' = Append(hist, [call |-> "edit", n |-> 0, m |-> 0, iz |-> FALSE])
Next == \/ \E n \in 0..MaxOrder, m \in 0..MaxOrder, iz \in BOOLEAN : Fit(n, m, iz) \/ BestFit(n, m, iz)
        \/ Edit
Spec == Init /\ [][Next]_vars

(* ------------------------------ clauses of C16 ------------------------------ *)
\* a fitting call never modifies the measurements it is given (only the caller's own edits change them)
DataUnchanged == [][(hist' # hist /\ hist'[Len(hist')].call # "edit") => data' = data]_vars
\* equal calls on equal data give identical results
Deterministic == \A i, j \in 1..Len(log) :
                   (log[i].call = log[j].call /\ log[i].n = log[j].n /\ log[i].m = log[j].m /\ log[i].iz = log[j].iz
                    /\ log[i].before = log[j].before) => log[i].result = log[j].result
\* the best-fit result is no worse, on the data it was given, than any single fit within the requested orders
BestOfGrid == \A i \in 1..Len(log) : (log[i].call = "best") =>
                \A n \in 0..log[i].n, m \in 0..log[i].m :
                   LossOf(log[i].result, log[i].before) <= LossOf(FitOf(Seen(log[i].before, log[i].iz), n, m), log[i].before)
=============================================================================
