--------------------------- MODULE MC_FluxSolverF64 ---------------------------
(***************************************************************************)
(* Leg A/C for C02 and C10: the FluxSolver machine over the reference       *)
(* thermodynamics (Thermo: Composition + Component + Activity) in IEEE      *)
(* arithmetic, on scenarios exported by the harness from the code's own     *)
(* mixtures (INPUT_FILE).  UNIQUAC scenarios use the variant as implemented *)
(* (named deviation D3) so that the map is the one the code iterates.       *)
(*  - with the iteration bound every behaviour ends (liveness), the law     *)
(*    holds at every returned state;                                        *)
(*  - NotStuck (checked with -continue) lists the inputs on which the loop  *)
(*    runs into the bound: the adversarial inputs replayed on the real code;*)
(*  - without the bound (negative configuration; the unbounded variant   *)
(*    does not count, so a cycle of the map is a cycle of the state graph)   *)
(*    TLC finds the attracting cycle as a liveness counterexample.          *)
(***************************************************************************)
EXTENDS Integers, Sequences, TLC, F64, F64Json, IOUtils
CONSTANTS Bounded, MaxIter

Inputs == F64NdJson(IOEnv.INPUT_FILE)
EqX(x, z, s) == FCloseS(x, z, s, Lit("1e-12"))
Th == INSTANCE Thermo WITH Add <- FAdd, Sub <- FSub, Mul <- FMul, Div <- FDiv, Lt <- FLt, Le <- FLe,
                           Eq <- EqX, Dec <- Lit, Exp <- FExp, Ln <- FLog, Pow10 <- FPow10

InpTab == [j \in 1..Len(Inputs) |->
             LET r == Inputs[j]
             IN [P1 |-> r.P1, P2 |-> r.P2, prec |-> r.prec, mode |-> r.mode, Tperm |-> r.Tperm, pperm |-> r.pperm,
                 variant |-> r.variant, j |-> j,
                 pf |-> Th!PartialPressures(r.mix, r.variant, r.T, r.xw, r.ctype)]]

PP(i, yy) ==
  IF i.mode = "vac" THEN <<Lit("0.0"), Lit("0.0")>>
  ELSE IF i.mode = "temp" THEN Th!PartialPressures(Inputs[i.j].mix, i.variant, i.Tperm, yy, "weight")
  ELSE <<FMul(i.pperm, yy), FMul(i.pperm, FSub(Lit("1.0"), yy))>>

\* inp is a state variable (set once): as a defined expression it would be re-evaluated, thermodynamics included,
\* at every one of its many occurrences in the actions
VARIABLES k, inp, y, d, n, pc, J
S == INSTANCE FluxSolver WITH Add <- FAdd, Sub <- FSub, Mul <- FMul, Div <- FDiv, Lt <- FLt, Le <- FLe,
                              Eq <- EqX, Dec <- Lit, PermPress <- PP
vars == <<k, inp, y, d, n, pc, J>>

Init == k \in 1..Len(Inputs) /\ inp = InpTab[k] /\ y = Lit("0.0") /\ d = Lit("1.0") /\ n = 0 /\ pc = "start"
        /\ J = <<Lit("0.0"), Lit("0.0")>>
Next == k' = k /\ S!Next
Spec == Init /\ [][Next]_vars /\ WF_vars(Next)

Terminates == <>S!Done
Inv_Law       == S!Law(FMul(inp.P1, inp.pf[1])) \/ ~(FIsFinite(J[1]) /\ FIsFinite(J[2]))
Inv_ExitBelow == S!ExitedBelowPrecision
Inv_Bounded   == S!BoundedEvaluations
NotStuck      == ~(pc = "raised" /\ Bounded /\ n >= MaxIter)
=============================================================================
