SPECIFICATION SimSpec
CONSTANT EntryNames = {"s1", "s2", "s3"}
CONSTANT MkdirFirst = FALSE
CONSTANT MaxOps = 9
CHECK_DEADLOCK FALSE
