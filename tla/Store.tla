-------------------------------- MODULE Store --------------------------------
(***************************************************************************)
(* The results store of a membrane directory                                *)
(* (pyvaporation/process/process.py: _generate_process_path, save, load).   *)
(* dirs: process-directory name -> contents (an abstract digest of the      *)
(* files written: which model, which storage mode).  The name of a new      *)
(* directory is derived from the clock; it may collide with an existing one *)
(* - then the save raises and nothing changes (what the code does), or, in  *)
(* the equally admissible design Rename = TRUE, another fresh name is used. *)
(*  Overwrite = TRUE is the named wrong design mkdir(exist_ok=True).        *)
(***************************************************************************)
EXTENDS Integers, FiniteSets
CONSTANTS Names, Models, Overwrite, Rename, MaxSaves
VARIABLES dirs, last, nsaves        \* last: outcome of the last call

vars == <<dirs, last, nsaves>>
Content(model, safe) == <<model, safe>>
Init == dirs = [n \in {} |-> 0] /\ last = [op |-> "none"] /\ nsaves = 0

Save(model, safe, name) ==
  /\ nsaves < MaxSaves /\ nsaves' = nsaves + 1
  /\ IF name \in DOMAIN dirs /\ ~Overwrite
     THEN \/ /\ last' = [op |-> "save", outcome |-> "raise", name |-> name]
             /\ UNCHANGED dirs
          \/ /\ Rename
             /\ \E n2 \in Names \ DOMAIN dirs :
                   /\ dirs' = [n \in DOMAIN dirs \cup {n2} |-> IF n = n2 THEN Content(model, safe) ELSE dirs[n]]
                   /\ last' = [op |-> "save", outcome |-> "ok", name |-> n2]
     ELSE /\ dirs' = [n \in DOMAIN dirs \cup {name} |-> IF n = name THEN Content(model, safe) ELSE dirs[n]]
          /\ last' = [op |-> "save", outcome |-> "ok", name |-> name]
Load(name, safe) ==
  /\ name \in DOMAIN dirs /\ dirs[name][2] = safe
  /\ last' = [op |-> "load", outcome |-> "ok", name |-> name, model |-> dirs[name][1]]
  /\ UNCHANGED <<dirs, nsaves>>
Next == \/ \E m \in Models, s \in BOOLEAN, n \in Names : Save(m, s, n)
        \/ \E n \in Names, s \in BOOLEAN : Load(n, s)
Spec == Init /\ [][Next]_vars

\* a save never writes into or alters a previously saved process directory
OldDirsImmutable == [][\A n \in DOMAIN dirs : n \in DOMAIN dirs' /\ dirs'[n] = dirs[n]]_vars
\* a successful save creates exactly one new directory; a collision raises and changes nothing
FreshDirOrRaise == [][(last'.op = "save") =>
                        IF last'.outcome = "ok" THEN last'.name \notin DOMAIN dirs /\ DOMAIN dirs' = DOMAIN dirs \cup {last'.name}
                        ELSE dirs' = dirs /\ last'.name \in DOMAIN dirs]_vars
\* loading gives back the model that was saved there
RoundTrip == (last.op = "load") => last.model = dirs[last.name][1]
=============================================================================
