------------------------------- MODULE MC_Fit -------------------------------
EXTENDS Fit, TLC, Json
\* leg C: in simulation mode every behaviour that reaches MaxCalls calls prints its call history for the harness
Done == Len(hist) = MaxCalls /\ PrintT(<<"HISTORY", ToJson(hist)>>) /\ UNCHANGED vars
SimSpec == Init /\ [][Next \/ Done]_vars
=============================================================================
