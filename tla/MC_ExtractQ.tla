---------------------------- MODULE MC_ExtractQ ----------------------------
(***************************************************************************)
(* Leg A for the measurement-extraction part of C07: every curve set of at  *)
(* most two curves with at most two points each over a small grid of exact  *)
(* rationals (equal points, equal temperatures, zero permeances included),  *)
(* stated in mass fractions and, point by point, in the equivalent mole     *)
(* fractions: both yield one measurement per point, in order, and the same  *)
(* ones.                                                                    *)
(***************************************************************************)
EXTENDS Integers, Sequences, TLC, Q
CONSTANT Dev
VARIABLES cs, comp
M1 == QLit("18")
M2 == QLit("46")
Ex == INSTANCE Extract WITH Add <- QAdd, Sub <- QSub, Mul <- QMul, Div <- QDiv, Dec <- QLit
ExRef == INSTANCE Extract WITH Add <- QAdd, Sub <- QSub, Mul <- QMul, Div <- QDiv, Dec <- QLit, Dev <- "none"
Xs == {QRat(1, 4), QRat(1, 2)}
Ps == {<<QLit("0"), QLit("3")>>, <<QLit("2"), QLit("5")>>}
Pts == [x: Xs, xtype: {"weight"}, P: Ps]
PtSeqs == {<<p>> : p \in Pts} \cup {<<p, q>> : p \in Pts, q \in Pts}
Curves == [T: {300, 320}, pts: PtSeqs]
Sets == {<<c>> : c \in Curves} \cup {<<c, d>> : c \in Curves, d \in Curves}
\* the same set with every point stated as a mole fraction
ToMolar(w) == QDiv(QDiv(w, M1), QAdd(QDiv(w, M1), QDiv(QSub(QLit("1"), w), M2)))
Rebased(s) == [k \in 1..Len(s) |-> [s[k] EXCEPT !.pts = [j \in 1..Len(s[k].pts) |->
                                        [s[k].pts[j] EXCEPT !.x = ToMolar(@), !.xtype = "molar"]]]]
Init == cs \in Sets /\ comp \in {1, 2}
Next == UNCHANGED <<cs, comp>>
Spec == Init /\ [][Next]_<<cs, comp>>
Inv_Complete == Ex!Complete(cs, comp, M1, M2)
Inv_OrderKept == Ex!OfSet(cs, comp, M1, M2) = ExRef!Concat(cs, comp, M1, M2)
Inv_BasisFree == Ex!SameSeq(Ex!OfSet(cs, comp, M1, M2), Ex!OfSet(Rebased(cs), comp, M1, M2), LAMBDA a, b : a = b)
=============================================================================
