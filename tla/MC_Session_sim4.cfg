SPECIFICATION SimSpec
CONSTANT Entries <- EntrySet
CONSTANT Objects <- ObjectSet
CONSTANT Impure = {}
CONSTANT MaxCalls = 4
CHECK_DEADLOCK FALSE
