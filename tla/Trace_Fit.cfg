SPECIFICATION Spec
INVARIANT KnownEvent
INVARIANT Cl_DataUnchanged
INVARIANT Cl_Deterministic
INVARIANT Cl_BestOfGrid
INVARIANT Cl_VLEBestOfMethods
INVARIANT Cl_FunctionForm
INVARIANT Ref_NoRaise
INVARIANT Ref_VLEReturns
CHECK_DEADLOCK FALSE
