SPECIFICATION Spec
CONSTANT Entries <- EntrySet
CONSTANT Objects <- ObjectSet
CONSTANT Impure = {"fit_zero", "best_fit_zero"}
CONSTANT MaxCalls = 3
INVARIANT ArgsUnchanged
INVARIANT SameAsFresh
CHECK_DEADLOCK FALSE
