-------------------------------- MODULE Reject --------------------------------
(***************************************************************************)
(* Which specifications must be rejected by which public entry point        *)
(* (C19).  A specification is a record of what the caller states; an entry  *)
(* point accepts it only if it is valid for that entry point, otherwise it  *)
(* raises.  The machine lets a caller edit a specification field by field   *)
(* and call any entry point; the table of (entry, invalid class, model)     *)
(* rows is exported for the harness.                                        *)
(***************************************************************************)
EXTENDS Integers, FiniteSets, Sequences
CONSTANT Deviation       \* "none" | "both_means_temperature" (a wrong design that silently prefers one condition)
VARIABLES spec, outcome

DrivingForce == {"solver", "solver_inner", "permeate_composition", "separation_factor", "ideal_curve", "nonideal_curve",
                 "ideal_iso", "ideal_noniso", "nonideal_iso", "nonideal_noniso", "pure_flux", "curve_from_fluxes",
                 "curve_load"}        \* a curve read from a file (DiffusionCurveSet.load / Membrane.load) states its permeate side too
UsesModel    == {"activity", "partial_pressures", "solver", "permeate_composition", "separation_factor", "ideal_curve", "nonideal_curve",
                 "ideal_iso", "ideal_noniso", "nonideal_iso", "nonideal_noniso"}
Entries      == DrivingForce \cup UsesModel \cup {"mixture_construct", "curve_construct", "activation_energy", "get_permeance"}
\* entry points that need the membrane's activation energy: the two membrane methods, and the non-ideal models when they
\* work from a single curve at a temperature the feed does not stay at
NeedsEa      == {"activation_energy", "get_permeance", "nonideal_curve", "nonideal_iso", "nonideal_noniso"}
Models       == {"NRTL", "UNIQUAC"}

Fields == {"hasTperm", "haspperm", "hasNRTL", "hasUQ", "hasUQconst", "hasFlux", "hasPerm", "twoExps", "statedEa"}
ValidSpec == [f \in Fields |-> IF f \in {"hasTperm", "haspperm", "hasFlux"} THEN FALSE ELSE TRUE]
             \* a valid baseline: vacuum, both parameter sets and constants, permeances given, two experiments with Ea

Valid(entry, model, s) ==
  /\ (entry \in DrivingForce => ~(s.hasTperm /\ s.haspperm))
  /\ (entry = "mixture_construct" => (s.hasNRTL \/ s.hasUQ))
  /\ (entry \in UsesModel => /\ (model = "NRTL" => s.hasNRTL)
                             /\ (model = "UNIQUAC" => (s.hasUQ /\ s.hasUQconst)))
  /\ (entry = "curve_construct" => (s.hasFlux \/ s.hasPerm))
  /\ (entry \in NeedsEa => (s.twoExps \/ s.statedEa))

Accepts(entry, model, s) ==
  IF Deviation = "both_means_temperature" /\ entry \in DrivingForce /\ s.hasTperm /\ s.haspperm
  THEN TRUE                                         \* wrong design: no error, the temperature wins
  ELSE Valid(entry, model, s)

Init == spec = ValidSpec /\ outcome = [entry |-> "none"]
Edit(f) == spec' = [spec EXCEPT ![f] = ~@] /\ outcome' = [entry |-> "none"]
Call(e, mo) == /\ outcome' = [entry |-> e, model |-> mo, result |-> IF Accepts(e, mo, spec) THEN "ok" ELSE "raise"]
               /\ UNCHANGED spec
Next == (\E f \in Fields : Edit(f)) \/ (\E e \in Entries, mo \in Models : Call(e, mo))
Spec == Init /\ [][Next]_<<spec, outcome>>

\* contradictory or incomplete specifications are rejected, never defaulted
RejectsInvalid == (outcome.entry # "none" /\ ~Valid(outcome.entry, outcome.model, spec)) => outcome.result = "raise"

(* ---- the table for the harness: one row per (entry, invalid class, model) ---- *)
Class(entry) ==
  (IF entry \in DrivingForce THEN {"both_permeate"} ELSE {}) \cup
  (IF entry = "mixture_construct" THEN {"no_params"} ELSE {}) \cup
  (IF entry \in UsesModel THEN {"model_params_missing", "component_constants_missing"} ELSE {}) \cup
  (IF entry = "curve_construct" THEN {"neither_flux_nor_permeance"} ELSE {}) \cup
  (IF entry \in NeedsEa THEN {"underdetermined_ea"} ELSE {})
Rows == {r \in [entry : Entries, class : {"both_permeate", "no_params", "model_params_missing", "component_constants_missing",
                                           "neither_flux_nor_permeance", "underdetermined_ea"}, model : Models] :
           /\ r.class \in Class(r.entry)
           /\ (r.class = "component_constants_missing" => r.model = "UNIQUAC")}
=============================================================================
