SPECIFICATION ASpec
CONSTANT Bounded = TRUE
CONSTANT MaxIter = 4
INVARIANT BoundedEvaluations
PROPERTY Terminates
CHECK_DEADLOCK FALSE
