SPECIFICATION Spec
CONSTANT Dev = "none"
INVARIANT NeverRaised
CHECK_DEADLOCK FALSE
