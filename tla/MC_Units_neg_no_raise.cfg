SPECIFICATION Spec
CONSTANT Deviation = "no_raise"
INVARIANT Inv_PathIndependent
INVARIANT Inv_Invertible
INVARIANT Inv_Linear
INVARIANT Inv_NonNegative
INVARIANT Inv_Factors
PROPERTY StepIsConvRel
CHECK_DEADLOCK FALSE
