----------------------------- MODULE MC_LoaderSim -----------------------------
EXTENDS Loader, TLC, Json, Sequences
\* leg C: histories of directory edits and loads (simulation mode)
VARIABLE hist
SInit == Init /\ hist = <<>>
SNext == Next /\ hist' = Append(hist, last')
Done == Len(hist) >= MaxOps /\ PrintT(<<"HISTORY", ToJson(hist)>>) /\ UNCHANGED <<fs, last, nops, hist>>
SimSpec == SInit /\ [][SNext \/ Done]_<<fs, last, nops, hist>>
=============================================================================
