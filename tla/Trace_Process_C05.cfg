SPECIFICATION Spec
INVARIANT KnownEvent
INVARIANT Cl_PermFollowsFit
INVARIANT Cl_Step0Reproduces
INVARIANT Cl_PermUnits
INVARIANT Cl_FitIsBestFit
INVARIANT Cl_NI_PermFollowsFit
INVARIANT Cl_NI_Step0
INVARIANT Cl_NI_Len
INVARIANT Ref_NI_Grid
INVARIANT Ref_NI_FluxAtPoint
INVARIANT Ref_NI_Outcome
CHECK_DEADLOCK FALSE
