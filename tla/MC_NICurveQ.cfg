SPECIFICATION Spec
CONSTANT Dev = "none"
INVARIANT Inv_Len
INVARIANT Inv_Init0
INVARIANT Inv_Grid
INVARIANT Inv_PermFollowsFit
INVARIANT Inv_Step0
INVARIANT Inv_AllValid
INVARIANT Inv_LookAheadValid
INVARIANT Inv_Outcome
CHECK_DEADLOCK FALSE
