----------------------------- MODULE PVFunction -----------------------------
(***************************************************************************)
(* The fitted permeance function (pyvaporation/optimizer/optimizer.py:      *)
(* PervaporationFunction):                                                  *)
(*   P(x, T) = alpha * exp( sum_i a_i x^(i+1)  -  sum_i b_i x^i / T )       *)
(* f = [alpha, a (sequence), b (sequence)]; scaling and the single-curve    *)
(* Arrhenius re-basing used by the non-ideal models.                        *)
(***************************************************************************)
EXTENDS Integers, Sequences
CONSTANTS Add(_,_), Sub(_,_), Mul(_,_), Div(_,_), Lt(_,_), Le(_,_), Eq(_,_,_), Dec(_), Exp(_), PowInt(_,_)

Zero == Dec("0")
One  == Dec("1")
R    == Dec("8.314462")
RECURSIVE SumA(_, _, _), SumB(_, _, _)
SumA(a, x, i) == IF i > Len(a) THEN Zero ELSE Add(Mul(a[i], PowInt(x, i)), SumA(a, x, i + 1))          \* a_i x^(i+1), 0-based i
SumB(b, x, i) == IF i > Len(b) THEN Zero ELSE Add(Mul(b[i], PowInt(x, i - 1)), SumB(b, x, i + 1))      \* b_i x^i
Value(f, x, T) == Mul(f.alpha, Exp(Sub(SumA(f.a, x, 1), Div(SumB(f.b, x, 1), T))))
Scaled(f, c)   == [f EXCEPT !.alpha = Mul(f.alpha, c)]
\* single curve measured at Tc, membrane activation energy Ea: F'(x, T) = F(x, Tc) exp(-Ea/R (1/T - 1/Tc))
Rebased(f, Ea, Tc) == [alpha |-> Mul(f.alpha, Exp(Add(Div(Sub(Zero, f.b[1]), Tc), Div(Ea, Mul(R, Tc))))),
                       a |-> f.a, b |-> <<Div(Ea, R)>> \o Tail(f.b)]
ArrheniusOfCurve(f, x, T, Ea, Tc) == Mul(Value(f, x, Tc), Exp(Mul(Div(Sub(Zero, Ea), R), Sub(Div(One, T), Div(One, Tc)))))

\* clauses of C16 about the function form
ScalesLinearly(f, c, x, T, scale) == Eq(Value(Scaled(f, c), x, T), Mul(c, Value(f, x, T)), scale)
RebasedIsArrhenius(f, x, T, Ea, Tc, scale) == Eq(Value(Rebased(f, Ea, Tc), x, T), ArrheniusOfCurve(f, x, T, Ea, Tc), scale)
=============================================================================
