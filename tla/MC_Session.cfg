SPECIFICATION Spec
CONSTANT Entries <- EntrySet
CONSTANT Objects <- ObjectSet
CONSTANT Impure = {}
CONSTANT MaxCalls = 3
INVARIANT ArgsUnchanged
INVARIANT SameAsFresh
CHECK_DEADLOCK FALSE
