---------------------------- MODULE Trace_Activity ----------------------------
(***************************************************************************)
(* Leg B for C04.  One trace per mixture: Mix{parameters} followed by       *)
(*  GD{model, T, x, h, pts, g1[5], g2[5], probe}  five-point stencils of the *)
(*     real calculate_activity_coefficients,                                *)
(*  Pure{model, T, eps, g_hi, g_lo, g_one, g_zero},                          *)
(*  PP{model, T, w, x, x2, g, psat, p_w, p_x}.                               *)
(* Cl_xxx are clauses of C04 on outputs of the public functions; Ref_xxx    *)
(* compare with the specification's formulas (DRIFT only); KF_xxx fire on   *)
(* probe lines where the strict clause fails but the named deviation        *)
(* explains the output (known finding D3).                                  *)
(***************************************************************************)
EXTENDS Integers, Sequences, TLC, F64, F64Json, IOUtils

Trace == F64NdJson(IOEnv.TRACE_FILE)
EqD(x, y, s) == FCloseS(x, y, s, Lit("1e-5"))
EqX(x, y, s) == FCloseS(x, y, s, Lit("1e-12"))
EqR(x, y, s) == FCloseS(x, y, s, Lit("1e-9"))
AD == INSTANCE Activity WITH Add <- FAdd, Sub <- FSub, Mul <- FMul, Div <- FDiv, Lt <- FLt, Le <- FLe,
                             Eq <- EqD, Dec <- Lit, Exp <- FExp, Ln <- FLog, Pow10 <- FPow10
AX == INSTANCE Activity WITH Add <- FAdd, Sub <- FSub, Mul <- FMul, Div <- FDiv, Lt <- FLt, Le <- FLe,
                             Eq <- EqX, Dec <- Lit, Exp <- FExp, Ln <- FLog, Pow10 <- FPow10

VARIABLE l
Starts == {j \in 1..Len(Trace) : Trace[j].i = 0}
Init == l \in Starts
Next == l < Len(Trace) /\ Trace[l + 1].i > 0 /\ l' = l + 1
Spec == Init /\ [][Next]_l
E == Trace[l]
O == Trace[l - E.i]          \* the Mix line

KnownEvent == E.ev \in {"Mix", "GD", "Pure", "PP"}

\* does the recorded stencil equal the specification's variant v at every point?
MatchesVariant(v) ==
  \A k \in 1..5 : LET g == AD!Gammas(O, v, E.T, E.pts[k])
                  IN EqR(E.g1[k], g[1], g[1]) /\ EqR(E.g2[k], g[2], g[2])
Usable(s) == \A k \in 1..5 : FIsFinite(s[k]) /\ FLt(Lit("0.0"), s[k])   \* relations are asserted on finite operands only
GDStrict == (Usable(E.g1) /\ Usable(E.g2)) => AD!GibbsDuhem(E.x, E.g1, E.g2, E.h)
D3_Applies == E.model = "UNIQUAC" /\ MatchesVariant("UNIQUAC_AsImplemented")

Cl_GibbsDuhem == (E.ev = "GD") => (GDStrict \/ D3_Applies)
KF_D3_GibbsDuhem == (E.ev = "GD" /\ E.probe) => GDStrict

\* g_hi[k] = gamma_1 at x1 = 1 - eps[k], g_lo[k] = gamma_2 at x1 = eps[k], eps = <<1e-4, 1e-6, 1e-8>>;
\* at exactly pure compositions NRTL gives exactly 1 (UNIQUAC substitutes 1e-5, so only the limit is asked)
Cl_PureLimit == (E.ev = "Pure" /\ \A k \in 1..3 : FIsFinite(E.g_hi[k]) /\ FIsFinite(E.g_lo[k])) =>
                  /\ AD!PureLimit(E.g_hi[1], E.g_hi[2], E.g_hi[3]) /\ AD!PureLimit(E.g_lo[1], E.g_lo[2], E.g_lo[3])
                  /\ (E.model = "NRTL" => FEqNum(E.g_one, Lit("1.0")) /\ FEqNum(E.g_zero, Lit("1.0")))
Cl_Raoult == (E.ev = "GD" /\ O.raoult /\ E.model = "NRTL") =>
                  \A k \in 1..5 : FCloseA(E.g1[k], Lit("1.0"), Lit("1e-14")) /\ FCloseA(E.g2[k], Lit("1.0"), Lit("1e-14"))
Cl_PartialPressure == (E.ev = "PP") =>
                  /\ AX!PartialPressure(E.p_x[1], E.x, E.g[1], E.psat[1])
                  /\ AX!PartialPressure(E.p_x[2], E.x2, E.g[2], E.psat[2])
\* the mole fraction x was computed by the harness with the specification's formula; one ulp of x moves x_i by ulp / x_i and
\* gamma_i by about |ln gamma_i| ulp / min(x, 1-x) (extreme UNIQUAC parameters give ln gamma of several hundred)
CondX(pp, gi) == LET xm == FMax(FMin(E.x, E.x2), Lit("1e-300"))
                     lg == IF FLt(Lit("0.0"), gi) /\ FIsFinite(gi) THEN FAbs(FLog(gi)) ELSE Lit("0.0")
                 IN FMul(pp, FAdd(Lit("1.0"), FDiv(FMul(Lit("1e-3"), FAdd(Lit("1.0"), lg)), xm)))
Cl_BasisIndependent == /\ ((E.ev = "PP" /\ FIsFinite(E.p_x[1]) /\ FIsFinite(E.p_x[2])) =>
                             EqX(E.p_w[1], E.p_x[1], CondX(E.p_x[1], E.g[1])) /\ EqX(E.p_w[2], E.p_x[2], CondX(E.p_x[2], E.g[2])))
                       \* ... and so are the activity coefficients themselves (the public function takes either basis)
                       /\ ((E.ev = "PP" /\ FIsFinite(E.g[1]) /\ FIsFinite(E.g[2])) =>
                             EqX(E.g_w[1], E.g[1], CondX(E.g[1], E.g[1])) /\ EqX(E.g_w[2], E.g[2], CondX(E.g[2], E.g[2])))

Ref_Gamma == (E.ev = "GD") => (MatchesVariant(E.model) \/ D3_Applies)
=============================================================================
