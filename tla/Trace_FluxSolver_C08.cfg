SPECIFICATION Spec
INVARIANT KnownEvent
INVARIANT Cl_LawAtOwnComposition
INVARIANT Cl_VacuumExact
CHECK_DEADLOCK FALSE
