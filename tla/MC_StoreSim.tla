------------------------------ MODULE MC_StoreSim ---------------------------
EXTENDS Store, TLC, Json, Sequences
\* leg C: histories for the harness (simulation mode)
VARIABLE hist
SInit == Init /\ hist = <<>>
SNext == \/ \E m \in Models, s \in BOOLEAN, n \in Names : Save(m, s, n) /\ hist' = Append(hist, [op |-> "save", model |-> m, safe |-> s, name |-> n])
         \/ \E n \in Names, s \in BOOLEAN : Load(n, s) /\ hist' = Append(hist, [op |-> "load", safe |-> s, name |-> n, model |-> dirs[n][1]])
Done == Len(hist) >= 6 /\ PrintT(<<"HISTORY", ToJson(hist)>>) /\ UNCHANGED <<dirs, last, nsaves, hist>>
SimSpec == SInit /\ [][SNext \/ Done]_<<dirs, last, nsaves, hist>>
=============================================================================
