SPECIFICATION Spec
INVARIANT KnownEvent
INVARIANT Cl_AtExperiment
INVARIANT Cl_ArrheniusLaw
INVARIANT Cl_Regression
INVARIANT Cl_RecoversEa
INVARIANT Cl_OnTheLine
INVARIANT Cl_Selectivity
INVARIANT Cl_PureFlux
INVARIANT Ref_Permeance
CHECK_DEADLOCK FALSE
