------------------------------ MODULE F64Json ------------------------------
(* ndjson loader that keeps floats (as F64 pairs) and null (as <<>>);       *)
(* overridden by tlc2.module.F64Json.                                       *)
F64NdJson(path) == CHOOSE x \in {} : TRUE
=============================================================================
