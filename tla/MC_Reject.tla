------------------------------ MODULE MC_Reject ------------------------------
EXTENDS Reject, TLC, Json, IOUtils
RECURSIVE SetToSeqR(_)
SetToSeqR(S) == IF S = {} THEN <<>> ELSE LET x == CHOOSE x \in S : TRUE IN <<x>> \o SetToSeqR(S \ {x})
ASSUME IF "ROWS_FILE" \in DOMAIN IOEnv THEN ndJsonSerialize(IOEnv.ROWS_FILE, SetToSeqR(Rows)) ELSE TRUE
=============================================================================
