SPECIFICATION SimSpec
CONSTANT Leaky = FALSE
CONSTANT MaxOrder = 2
CONSTANT MaxCalls = 5
PROPERTY DataUnchanged
CHECK_DEADLOCK FALSE
