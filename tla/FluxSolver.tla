----------------------------- MODULE FluxSolver -----------------------------
(***************************************************************************)
(* FluxSolverCore (the machine Seed / Iterate / GiveUp / Exit and its       *)
(* clauses) plus the same computation as a recursive FUNCTION of the input, *)
(* used for twin relations and as the reference for recorded executions.    *)
(* (Kept apart because the proof system does not read RECURSIVE operators:  *)
(* tla/proofs/FluxSolverProofs.tla is about FluxSolverCore.)                *)
(***************************************************************************)
EXTENDS FluxSolverCore

(* ---- the same computation as a function of the input (used for twin relations) ---- *)
RECURSIVE LoopFrom(_, _, _, _)
LoopFrom(i, yy, dd, nn) ==
  IF ~Continue(dd, i.prec)
    THEN [pc |-> "returned", y |-> yy, n |-> nn, J |-> FluxAt(i.P1, i.P2, i.pf, PermPress(i, yy))]
  ELSE IF Bounded /\ nn >= MaxIter THEN [pc |-> "raised", y |-> yy, n |-> nn, J |-> <<Zero, Zero>>]
  ELSE LET yn == Y(FluxAt(i.P1, i.P2, i.pf, PermPress(i, yy)))
       IN IF ValidY(yn) THEN LoopFrom(i, yn, Dist(yy, yn), nn + 1)
          ELSE [pc |-> "raised", y |-> yy, n |-> nn, J |-> <<Zero, Zero>>]
Solve(i) ==
  LET y0 == Y(<<Mul(i.P1, i.pf[1]), Mul(i.P2, i.pf[2])>>)
  IN IF ValidY(y0) THEN LoopFrom(i, y0, One, 0) ELSE [pc |-> "raised", y |-> y0, n |-> 0, J |-> <<Zero, Zero>>]

=============================================================================
