------------------------------ MODULE Trace_Curve ------------------------------
(***************************************************************************)
(* Leg B for C09.                                                           *)
(*  CurveFromFluxes{mode, T, Tperm, pperm, Pin, prec, M1, M2, probe}        *)
(*    Point{x, J, Pout, Punits, y, pf, pp_mass, pp_molar, dpp, L}           *)
(*      J: fluxes of the real solver for permeances Pin at precision prec;  *)
(*      Pout: what the real DiffusionCurve built from them reports back;    *)
(*      pf, pp: oracle partial pressures (public get_partial_pressures) at  *)
(*      the feed state / at the permeate composition of J; dpp = dpp/dy;    *)
(*      L: local contraction factor of the solver map                       *)
(*  CurveFromPermeances{units}                                              *)
(*    PPoint{Psupplied, Pkg, Pexposed, Punits, J, pf, Pre}                  *)
(***************************************************************************)
EXTENDS Integers, Sequences, TLC, F64, F64Json, IOUtils
Trace == F64NdJson(IOEnv.TRACE_FILE)
EqR(a, b, s) == FCloseS(a, b, s, Lit("1e-9"))
C == INSTANCE Curve WITH Add <- FAdd, Sub <- FSub, Mul <- FMul, Div <- FDiv, Lt <- FLt, Le <- FLe, Eq <- EqR, Dec <- Lit
VARIABLE l
Starts == {j \in 1..Len(Trace) : Trace[j].i = 0}
Init == l \in Starts
Next == l < Len(Trace) /\ Trace[l + 1].i > 0 /\ l' = l + 1
Spec == Init /\ [][Next]_l
E == Trace[l]
O == Trace[l - E.i]
KG == "kg/(m2*h*kPa)"

KnownEvent == E.ev \in {"CurveFromFluxes", "Point", "CurveFromPermeances", "PPoint"}

\* the solver stopped within prec of its fixed point (contractive case): the inversion is exact up to
\* |dpp_i/dy| * prec / |pf_i - pp_i| relative
Scale(i) == FMul(O.Pin[i], FAdd(Lit("1.0"), FDiv(FMul(FMul(Lit("3e10"), FAbs(E.dpp[i])), O.prec),
                                                   FAbs(FSub(E.pf[i], E.pp_mass[i])))))
Usable == E.ev = "Point" /\ FLt(E.L, Lit("0.97"))      \* (the solver ran at precision 1e-10: the slope at the stopping point is the slope between the last iterates) /\ FIsFinite(E.Pout[1]) /\ FIsFinite(E.Pout[2])
Strict == C!InvertsForward(O.Pin, E.Pout, Scale(1), Scale(2))
\* named deviation D7: in the permeate-pressure mode the code inverts with mole fractions
AsImplementedD7 == O.mode = "press" /\
                   LET q == C!Invert(E.J, E.pf, E.pp_molar)           \* (a negative result is clamped to 0 by the Permeance constructor)
                       c1 == FMax(q[1], Lit("0.0"))
                       c2 == FMax(q[2], Lit("0.0"))
                   IN EqR(E.Pout[1], c1, c1) /\ EqR(E.Pout[2], c2, c2)
Cl_InvertsForward == Usable => (Strict \/ AsImplementedD7)
KF_D7_InvertsForward == (Usable /\ O.probe) => Strict
Cl_UnitsNormalised == /\ (E.ev = "Point" => E.Punits = KG)
                      /\ (E.ev = "PPoint" => /\ E.Punits[1] = KG /\ E.Punits[2] = KG
                                             /\ EqR(E.Pexposed[1], E.Pkg[1], E.Pkg[1]) /\ EqR(E.Pexposed[2], E.Pkg[2], E.Pkg[2])
                                             \* also when fluxes and permeances are supplied together
                                             /\ E.Pboth_units[1] = KG /\ E.Pboth_units[2] = KG
                                             /\ EqR(E.Pboth[1], E.Pkg[1], E.Pkg[1]) /\ EqR(E.Pboth[2], E.Pkg[2], E.Pkg[2]))
Cl_FluxesFromPermeances == (E.ev = "PPoint") => C!FluxesArePermeanceTimesFeed(E.J, E.Pexposed, E.pf)
Cl_ReinvertsBack == (E.ev = "PPoint") => EqR(E.Pre[1], E.Pkg[1], E.Pkg[1]) /\ EqR(E.Pre[2], E.Pkg[2], E.Pkg[2])
Cl_YFromFluxes == (E.ev = "Point") => EqR(E.y, C!Y(E.J), Lit("1.0"))
Ref_CurveBuilt == (E.ev = "CurveFromFluxes") => ~E.raised
=============================================================================
