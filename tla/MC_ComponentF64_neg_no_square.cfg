SPECIFICATION Spec
CONSTANT Deviation = "no_square"
INVARIANT Inv_CC_FiniteDifference
INVARIANT Inv_CC_Analytic
INVARIANT Inv_PsatPositive
CHECK_DEADLOCK FALSE
