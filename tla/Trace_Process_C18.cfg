SPECIFICATION Spec
INVARIANT KnownEvent
INVARIANT Cl_Admissible
CHECK_DEADLOCK FALSE
