SPECIFICATION Spec
CONSTANT Inversion = "as_implemented"
INVARIANT Inv_InvertsForward
INVARIANT Inv_UnitsNormalised
INVARIANT Inv_Fluxes
CHECK_DEADLOCK FALSE
