SPECIFICATION Spec
CONSTANT Deviation = "none"
INVARIANT Inv_AtExperiment
INVARIANT Inv_ArrheniusLaw
INVARIANT Inv_OnTheLine
INVARIANT Inv_RecoversEa
INVARIANT Inv_RaisesWhenUnderdetermined
CHECK_DEADLOCK FALSE
