-------------------------------- MODULE Curve --------------------------------
(***************************************************************************)
(* One point of a DiffusionCurve                                            *)
(* (pyvaporation/diffusion_curve/diffusion_curve.py:53-197, 265-374).       *)
(* A curve is constructed either from permeances (any unit; fluxes are      *)
(* P (.) pf, permeate side ignored) or from fluxes measured under a         *)
(* permeate condition (permeances are J / (pf - pp(y)), y the permeate      *)
(* mass fraction of the fluxes).  pp for the permeate-pressure mode exists  *)
(* twice: in the basis the flux solver uses (mass fraction: the inversion   *)
(* then undoes the solver) and as implemented (mole fraction: NAMED         *)
(* deviation D7).                                                           *)
(***************************************************************************)
CONSTANTS Add(_,_), Sub(_,_), Mul(_,_), Div(_,_), Lt(_,_), Le(_,_), Eq(_,_,_), Dec(_)

One == Dec("1")
Zero == Dec("0")
Y(j) == Div(j[1], Add(j[1], j[2]))
FluxesFromPermeances(P, pf) == <<Mul(P[1], pf[1]), Mul(P[2], pf[2])>>
Invert(j, pf, pp) == <<Div(j[1], Sub(pf[1], pp[1])), Div(j[2], Sub(pf[2], pp[2]))>>
InvertVacuum(j, pf) == <<Div(j[1], pf[1]), Div(j[2], pf[2])>>
ToMolar(w, M1, M2) == Div(Div(w, M1), Add(Div(w, M1), Div(Sub(One, w), M2)))
PPressMass(p, yy) == <<Mul(p, yy), Mul(p, Sub(One, yy))>>                         \* what the flux solver subtracts
PPressMolar(p, yy, M1, M2) == <<Mul(p, ToMolar(yy, M1, M2)), Mul(p, Sub(One, ToMolar(yy, M1, M2)))>>   \* D7
SeparationFactor(yy, xw) == Div(Div(yy, Sub(One, yy)), Div(xw, Sub(One, xw)))
Psi(j, sf) == Mul(Add(j[1], j[2]), Sub(sf, One))

(* clauses of C09 *)
InvertsForward(Pin, Pout, scale1, scale2) == Eq(Pout[1], Pin[1], scale1) /\ Eq(Pout[2], Pin[2], scale2)
FluxesArePermeanceTimesFeed(j, Pkg, pf) == Eq(j[1], Mul(Pkg[1], pf[1]), j[1]) /\ Eq(j[2], Mul(Pkg[2], pf[2]), j[2])
=============================================================================
