SPECIFICATION Spec
INVARIANT KnownEvent
INVARIANT Cl_OldDirsImmutable
INVARIANT Cl_FreshDirOrRaise
INVARIANT Cl_RoundTripModel
INVARIANT Cl_RoundTripCurve
INVARIANT Cl_ReloadIsMassFraction
INVARIANT Cl_RoundTripFunction
INVARIANT Cl_RoundTripConditions
INVARIANT Step_CollisionRaises
CHECK_DEADLOCK FALSE
