------------------------------- MODULE Session -------------------------------
(***************************************************************************)
(* A modelling session (C20): one set of shared argument objects (membrane, *)
(* mixture, curve set, conditions, measurement list) and the built-in       *)
(* components/mixtures, on which modelling entry points are called in any   *)
(* order.  Objects are abstracted to version numbers; a call's result is an *)
(* uninterpreted function of the entry point and of the versions it sees.   *)
(* A pure library never changes a version, hence every call returns what    *)
(* the same call returns first in a fresh session.                          *)
(* Impure: a set of entry points that (named wrong design) modify an object *)
(* they are given - e.g. fitting with zero points before defect D5 was      *)
(* repaired.                                                                *)
(***************************************************************************)
EXTENDS Integers, Sequences, FiniteSets
CONSTANTS Entries, Objects, Impure, MaxCalls
VARIABLES version, log

vars == <<version, log>>
Fresh == [o \in Objects |-> 0]
ResultOf(e, v) == <<e, v>>                       \* uninterpreted: depends on everything the call can see
Touches(e) == IF e \in Impure THEN {CHOOSE o \in Objects : TRUE} ELSE {}

Init == version = Fresh /\ log = <<>>
Call(e) == /\ Len(log) < MaxCalls
           /\ log' = Append(log, [entry |-> e, before |-> version, result |-> ResultOf(e, version),
                                  after |-> [o \in Objects |-> IF o \in Touches(e) THEN version[o] + 1 ELSE version[o]]])
           /\ version' = [o \in Objects |-> IF o \in Touches(e) THEN version[o] + 1 ELSE version[o]]
Next == \E e \in Entries : Call(e)
Spec == Init /\ [][Next]_vars

ArgsUnchanged == \A j \in 1..Len(log) : log[j].after = log[j].before /\ log[j].before = Fresh
SameAsFresh   == \A j \in 1..Len(log) : log[j].result = ResultOf(log[j].entry, Fresh)
=============================================================================
