SPECIFICATION Spec
CONSTANT Dev = "drop_zero"
INVARIANT Inv_Complete
INVARIANT Inv_OrderKept
INVARIANT Inv_BasisFree
CHECK_DEADLOCK FALSE
