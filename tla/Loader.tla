------------------------------- MODULE Loader -------------------------------
(***************************************************************************)
(* The membrane directory and Membrane.load                                 *)
(* (pyvaporation/membrane/membrane.py:27-67, experiments/ideal.py:72-86,    *)
(*  diffusion_curve/diffusion_curve.py:494-511).                            *)
(*                                                                          *)
(*  fs  the directory:  csv      "absent" | "ok" | "badcols"                *)
(*                      hasSets  does diffusion_curve_sets/ exist           *)
(*                      entries  entry name -> "good" | "badcols" | "skip"  *)
(*                      results  does results/ exist                        *)
(*  The environment edits the directory (Put / Drop actions); Load reads    *)
(*  it, returns a membrane object or raises, and creates results/ on        *)
(*  success only.  MkdirFirst = TRUE is the named wrong design that creates *)
(*  results/ before deciding.                                               *)
(***************************************************************************)
EXTENDS Integers, FiniteSets
CONSTANTS EntryNames, MkdirFirst, MaxOps
VARIABLES fs, last, nops

vars == <<fs, last, nops>>
Kinds == {"good", "badcols", "skip"}
Layouts == [csv : {"absent", "ok", "badcols"}, hasSets : BOOLEAN, entries : UNION {[S -> Kinds] : S \in SUBSET EntryNames}, results : BOOLEAN]
WellFormed(f) == f.hasSets \/ DOMAIN f.entries = {}

Loadable(f) == {e \in DOMAIN f.entries : f.entries[e] # "skip"}
BadEntry(f) == \E e \in Loadable(f) : f.entries[e] = "badcols"
\* the order of the decisions is the code's: csv first, then the curve sets, then "nothing found"
Outcome(f) == IF f.csv = "badcols" THEN "raise_columns"
              ELSE IF f.hasSets /\ BadEntry(f) THEN "raise_columns"
              ELSE IF f.csv = "absent" /\ Loadable(f) = {} THEN "raise_nothing"
              ELSE "ok"
Object(f) == [hasIE |-> f.csv = "ok", sets |-> Loadable(f)]
After(f) == IF Outcome(f) = "ok" \/ MkdirFirst THEN [f EXCEPT !.results = TRUE] ELSE f

Init == /\ fs = [csv |-> "absent", hasSets |-> FALSE, entries |-> [e \in {} |-> "good"], results |-> FALSE]
        /\ last = [op |-> "none"] /\ nops = 0
Tick == nops < MaxOps /\ nops' = nops + 1
PutCsv(k) == Tick /\ k \in {"ok", "badcols"} /\ fs' = [fs EXCEPT !.csv = k] /\ last' = [op |-> "putcsv", kind |-> k]
DropCsv == Tick /\ fs.csv # "absent" /\ fs' = [fs EXCEPT !.csv = "absent"] /\ last' = [op |-> "dropcsv"]
MkSets == Tick /\ ~fs.hasSets /\ fs' = [fs EXCEPT !.hasSets = TRUE] /\ last' = [op |-> "mksets"]
PutEntry(e, k) == /\ Tick /\ fs.hasSets
                  /\ fs' = [fs EXCEPT !.entries = [x \in DOMAIN fs.entries \cup {e} |-> IF x = e THEN k ELSE fs.entries[x]]]
                  /\ last' = [op |-> "putentry", entry |-> e, kind |-> k]
DropEntry(e) == /\ Tick /\ e \in DOMAIN fs.entries
                /\ fs' = [fs EXCEPT !.entries = [x \in DOMAIN fs.entries \ {e} |-> fs.entries[x]]]
                /\ last' = [op |-> "dropentry", entry |-> e]
Load == /\ Tick
        /\ fs' = After(fs)
        /\ last' = [op |-> "load", outcome |-> Outcome(fs), obj |-> Object(fs)]
Next == \/ \E k \in {"ok", "badcols"} : PutCsv(k)
        \/ DropCsv \/ MkSets
        \/ \E e \in EntryNames, k \in Kinds : PutEntry(e, k)
        \/ \E e \in EntryNames : DropEntry(e)
        \/ Load
Spec == Init /\ [][Next]_vars

TypeOK == fs \in Layouts /\ WellFormed(fs)
\* loading changes nothing but the existence of results/, and that only on success
LoadOnlyAddsResults == [][(last'.op = "load") =>
                            /\ [fs' EXCEPT !.results = fs.results] = fs
                            /\ (fs'.results # fs.results => last'.outcome = "ok")]_vars
\* a load that succeeded leaves a directory on which the next load gives the same object and changes nothing
LoadIdempotent == [][(last.op = "load" /\ last.outcome = "ok" /\ last'.op = "load") =>
                        (last'.outcome = "ok" /\ last'.obj = last.obj /\ fs' = fs)]_vars
\* a membrane object is returned only if it holds something
NeverEmptyObject == (last.op = "load" /\ last.outcome = "ok") => (last.obj.hasIE \/ last.obj.sets # {})
\* ignorable entries never reach the object
SkipsIgnorable == (last.op = "load" /\ last.outcome = "ok") => \A e \in last.obj.sets : e \in DOMAIN fs.entries => fs.entries[e] # "skip"
=============================================================================
