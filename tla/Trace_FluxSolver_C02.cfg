SPECIFICATION Spec
INVARIANT KnownEvent
INVARIANT Cl_Law
INVARIANT Cl_LawAtOwnComposition
INVARIANT Cl_SelfConsistent
INVARIANT Cl_VacuumExact
INVARIANT Cl_PPIdentity
INVARIANT Cl_Homogeneous
INVARIANT Step_Seed
INVARIANT Step_Iterate
INVARIANT Step_LoopRule
INVARIANT Step_Final
INVARIANT Ref_Eval
CHECK_DEADLOCK FALSE
