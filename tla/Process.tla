------------------------------- MODULE Process -------------------------------
(***************************************************************************)
(* The explicit time-stepped mass and heat balance of the four process      *)
(* models (pyvaporation/pervaporation/pervaporation.py: 268-620, 842-1497)  *)
(* as one state machine over an abstract arithmetic.                        *)
(*                                                                         *)
(* run  = [N, dt, A, m0, x0w, T0, iso, ideal, hasTperm, hasProg, guarded]   *)
(* The reported series are sequences: time (all N entries from the start),  *)
(* m, x, T (one look-ahead entry is appended by every step and popped at    *)
(* the end), J, y, Qe, Qc (one entry per step), P (ideal isothermal: N      *)
(* copies from the start; ideal non-isothermal: one per step; non-ideal:    *)
(* initial entry + one look-ahead per step, popped at the end).             *)
(* Everything the step takes from outside (fluxes from the solver, latent   *)
(* heats, heat capacities, programme value, next permeances, condensation   *)
(* heat) is the environment record                                          *)
(*   e = [J1, J2, h1, h2, cp1, cp2, prog, qc, P, Pnext]                     *)
(* chosen freely by the model checker and bound to oracle values in traces. *)
(***************************************************************************)
EXTENDS Integers, Sequences
CONSTANTS Add(_,_), Sub(_,_), Mul(_,_), Div(_,_), Lt(_,_), Le(_,_), Eq(_,_,_), Dec(_), Num(_),
          Dev       \* "none", or a NAMED wrong design used by negative configurations:
                    \* "mass_one_flux" | "comp_next_mass" | "time_shift" | "no_pop" | "area_once" | "iso_heats_as_written"
                    \* ("iso_heats_as_written" is defect D1 of the original isothermal models)
VARIABLES run, time, m, x, T, J, y, P, Qe, Qc, pc

vars == <<run, time, m, x, T, J, y, P, Qe, Qc, pc>>
Zero == Dec("0")
One  == Dec("1")
NoHeat == "none"                                   \* the None entry of permeate_condensation_heat

(* ----------------------------- the step functions ----------------------------- *)
D1(r, e) == Mul(Mul(e.J1, r.A), r.dt)
D2(r, e) == IF Dev = "area_once" THEN Mul(e.J2, r.dt) ELSE Mul(Mul(e.J2, r.A), r.dt)
QevapOf(r, e) == IF Dev = "iso_heats_as_written" /\ r.iso
                 THEN Add(Mul(e.h1, D1(r, e)), Mul(Mul(e.h2, e.massratio), D2(r, e)))   \* h2 / M1 instead of h2 / M2
                 ELSE Add(Mul(e.h1, D1(r, e)), Mul(e.h2, D2(r, e)))
YOf(e) == Div(e.J1, Add(e.J1, e.J2))
MassNext(mk, r, e) == IF Dev = "mass_one_flux" THEN Sub(mk, D1(r, e)) ELSE Sub(Sub(mk, D1(r, e)), D2(r, e))
CompNext(mk, xk, r, e) == IF Dev = "comp_next_mass"
                          THEN Div(Sub(Mul(xk, MassNext(mk, r, e)), D1(r, e)), MassNext(mk, r, e))
                          ELSE Div(Sub(Mul(xk, mk), D1(r, e)), MassNext(mk, r, e))
CpMix(xk, e) == Add(Mul(xk, e.cp1), Mul(Sub(One, xk), e.cp2))
TempNext(mk, xk, Tk, r, e) ==
  IF r.iso THEN Tk
  ELSE IF r.hasProg THEN e.prog
  ELSE Sub(Tk, Div(QevapOf(r, e), Mul(CpMix(xk, e), mk)))
TimeAt(r, k) == IF Dev = "time_shift" THEN Mul(r.dt, Num(k + 1))
                ELSE Mul(r.dt, Num(k))              \* delta_hours * step, k = 0..N-1
ValidFraction(v) == Le(Zero, v) /\ Le(v, One)       \* the Composition validator
Admissible(mk, Tk) == Lt(Zero, mk) /\ Lt(Zero, Tk)  \* guard of the step (feed not exhausted, T > 0 K)

(* ---------------------------------- actions ------------------------------------ *)
Start(r, p0) ==
  /\ pc = "init"
  /\ run' = r
  /\ time' = [k \in 1..r.N |-> TimeAt(r, k - 1)]
  /\ m' = <<r.m0>> /\ x' = <<r.x0w>> /\ T' = <<r.T0>>
  /\ J' = <<>> /\ y' = <<>> /\ Qe' = <<>> /\ Qc' = <<>>
  /\ P' = IF r.ideal THEN (IF r.iso THEN [k \in 1..r.N |-> p0] ELSE <<>>) ELSE <<p0>>
  /\ pc' = "loop"

Step(e) ==
  /\ pc = "loop" /\ Len(J) < run.N
  /\ LET k  == Len(J) + 1
         mk == m[k]
         xk == x[k]
         Tk == IF run.iso THEN run.T0 ELSE T[k]
     IN /\ (run.guarded => Admissible(mk, Tk))
        /\ ValidFraction(YOf(e))
        /\ ValidFraction(CompNext(mk, xk, run, e))
        /\ J'  = Append(J, <<e.J1, e.J2>>)
        /\ y'  = Append(y, YOf(e))
        /\ Qe' = Append(Qe, QevapOf(run, e))
        /\ Qc' = Append(Qc, IF run.hasTperm THEN e.qc ELSE NoHeat)
        /\ m'  = Append(m, MassNext(mk, run, e))
        /\ x'  = Append(x, CompNext(mk, xk, run, e))
        /\ T'  = IF run.iso THEN T ELSE Append(T, TempNext(mk, xk, Tk, run, e))
        /\ P'  = IF run.ideal THEN (IF run.iso THEN P ELSE Append(P, e.P)) ELSE Append(P, e.Pnext)
  /\ UNCHANGED <<run, time, pc>>

\* precondition of Step (used by the twin product to state that both runs step, or both raise)
CanStep(e) ==
  /\ pc = "loop" /\ Len(J) < run.N
  /\ LET k == Len(J) + 1
         Tk == IF run.iso THEN run.T0 ELSE T[k]
     IN /\ (run.guarded => Admissible(m[k], Tk))
        /\ ValidFraction(YOf(e))
        /\ ValidFraction(CompNext(m[k], x[k], run, e))

\* the step cannot be taken: the model raises (inadmissible state, or a fraction outside [0,1])
Raise(e) ==
  /\ pc = "loop" /\ Len(J) < run.N
  /\ LET k == Len(J) + 1
     IN \/ (run.guarded /\ ~Admissible(m[k], IF run.iso THEN run.T0 ELSE T[k]))
        \/ ~ValidFraction(YOf(e))
        \/ ~ValidFraction(CompNext(m[k], x[k], run, e))
  /\ pc' = "raised"
  /\ UNCHANGED <<run, time, m, x, T, J, y, P, Qe, Qc>>

Pop(s) == SubSeq(s, 1, Len(s) - 1)
Finish ==
  /\ pc = "loop" /\ Len(J) = run.N
  /\ m' = (IF Dev = "no_pop" THEN m ELSE Pop(m)) /\ x' = Pop(x)
  /\ T' = IF run.iso THEN [k \in 1..run.N |-> run.T0] ELSE Pop(T)
  /\ P' = IF run.ideal THEN P ELSE Pop(P)
  /\ pc' = "returned"
  /\ UNCHANGED <<run, time, J, y, Qe, Qc>>

(* ------------- clauses on the returned series (C01, C03, C18) ------------------ *)
Returned == pc = "returned"
LenOK == Returned => /\ Len(time) = run.N /\ Len(m) = run.N /\ Len(x) = run.N /\ Len(T) = run.N
                     /\ Len(J) = run.N /\ Len(y) = run.N /\ Len(P) = run.N /\ Len(Qe) = run.N /\ Len(Qc) = run.N
Init0 == Returned => m[1] = run.m0 /\ x[1] = run.x0w /\ T[1] = run.T0
TimeGrid == Returned => \A k \in 1..run.N : Eq(time[k], Mul(run.dt, Num(k - 1)), time[k])
MassBal == Returned => \A k \in 1..(run.N - 1) :
             Eq(m[k + 1], Sub(m[k], Mul(Mul(Add(J[k][1], J[k][2]), run.A), run.dt)), m[k])
CompBal == Returned => \A k \in 1..(run.N - 1) :
             Eq(Mul(m[k + 1], x[k + 1]), Sub(Mul(m[k], x[k]), Mul(Mul(J[k][1], run.A), run.dt)), m[k])
YFromFluxes == Returned => \A k \in 1..run.N : Eq(y[k], Div(J[k][1], Add(J[k][1], J[k][2])), One)
IsoConst == (Returned /\ run.iso) => \A k \in 1..run.N : T[k] = run.T0
QcondIff == Returned => \A k \in 1..run.N : (Qc[k] # NoHeat) <=> run.hasTperm
AdmissibleStates == Returned => \A k \in 1..run.N : /\ Lt(Zero, m[k]) /\ Lt(Zero, T[k])
                                                     /\ ValidFraction(x[k]) /\ ValidFraction(y[k])

(* ------- relations between consecutive reported states, as used on recorded traces ------ *)
\* s, t: reported states k and k+1 = [m, x, T, J1, J2, Qevap, ...]; r: run parameters
MassBalRel(s, t, r) == Eq(t.m, Sub(s.m, Mul(Mul(Add(s.J1, s.J2), r.A), r.dt)), s.m)
CompBalRel(s, t, r) == Eq(Mul(t.m, t.x), Sub(Mul(s.m, s.x), Mul(Mul(s.J1, r.A), r.dt)), s.m)
Abs(v) == IF Lt(v, Zero) THEN Sub(Zero, v) ELSE v
QevapRel(s, r, h1, h2) ==
  LET d1 == Mul(Mul(s.J1, r.A), r.dt)
      d2 == Mul(Mul(s.J2, r.A), r.dt)
  IN Eq(s.Qevap, Add(Mul(h1, d1), Mul(h2, d2)), Add(Abs(Mul(h1, d1)), Abs(Mul(h2, d2))))
SelfCoolRel(s, t, cp1, cp2) ==
  Eq(t.T, Sub(s.T, Div(s.Qevap, Mul(Add(Mul(s.x, cp1), Mul(Sub(One, s.x), cp2)), s.m))), s.T)
=============================================================================
