SPECIFICATION Spec
CONSTANT Variants = {"UNIQUAC_AsImplemented"}
INVARIANT Inv_GibbsDuhem
CHECK_DEADLOCK FALSE
