SPECIFICATION SimSpec
CONSTANT Leaky = FALSE
CONSTANT MaxOrder = 3
CONSTANT MaxCalls = 5
PROPERTY DataUnchanged
CHECK_DEADLOCK FALSE
