SPECIFICATION SimSpec
CONSTANT Leaky = FALSE
CONSTANT MaxOrder = 3
CONSTANT MaxCalls = 5
INVARIANT DataUnchanged
CHECK_DEADLOCK FALSE
