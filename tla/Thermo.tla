------------------------------- MODULE Thermo -------------------------------
(***************************************************************************)
(* get_partial_pressures (pyvaporation/mixtures/mixture.py:102-130):        *)
(* mass fraction -> mole fraction, activity coefficients, p_i = Psat_i      *)
(* gamma_i x_i.  Composes Composition, Component and Activity.              *)
(* mix = [M1, M2, vp1, vp2, nrtl, uq, c1, c2]                               *)
(* variant in {"NRTL", "UNIQUAC", "UNIQUAC_AsImplemented"}                  *)
(***************************************************************************)
CONSTANTS Add(_,_), Sub(_,_), Mul(_,_), Div(_,_), Lt(_,_), Le(_,_), Eq(_,_,_), Dec(_),
          Exp(_), Ln(_), Pow10(_)

Cmp == INSTANCE Composition
Cpt == INSTANCE Component
Act == INSTANCE Activity

One == Dec("1")
MolarOf(mix, p, type) == IF type = "weight" THEN Cmp!ToMolarP(p, mix.M1, mix.M2) ELSE p

PartialPressures(mix, variant, T, p, type) ==
  LET x == MolarOf(mix, p, type)
      g == Act!Gammas(mix, variant, T, x)
  IN <<Mul(Mul(Cpt!Psat(mix.vp1, T), g[1]), x),
       Mul(Mul(Cpt!Psat(mix.vp2, T), g[2]), Sub(One, x))>>
=============================================================================
