---------------------------- MODULE Composition ----------------------------
(***************************************************************************)
(* Mole-/mass-fraction compositions of a binary mixture                     *)
(* (pyvaporation/mixtures/mixture.py: Composition, to_molar, to_weight).    *)
(* Written over an abstract arithmetic so that TLC can run it with exact    *)
(* rationals (model checking) and with IEEE doubles (trace validation).     *)
(*                                                                         *)
(* A composition is a record [p |-> fraction of the first component,        *)
(* type |-> "weight" | "molar"].  The state of the little machine that the  *)
(* property C15 is about is a pair of compositions of the same mixture      *)
(* (molar masses M1, M2) that is converted back and forth.                  *)
(***************************************************************************)
CONSTANTS Add(_,_), Sub(_,_), Mul(_,_), Div(_,_), Lt(_,_), Le(_,_), Eq(_,_,_), Dec(_)

Zero == Dec("0")
One  == Dec("1")
Types == {"weight", "molar"}

Second(p) == Sub(One, p)
Valid(p)  == Le(Zero, p) /\ Le(p, One)               \* the [0,1] validator

\* the two conversion formulas exactly as the code evaluates them
ToMolarP(w, M1, M2)  == Div(Div(w, M1), Add(Div(w, M1), Div(Sub(One, w), M2)))
ToWeightP(x, M1, M2) == Div(Mul(M1, x), Add(Mul(M1, x), Mul(M2, Sub(One, x))))

ConvP(p, from, to, M1, M2) ==
  IF from = to THEN p
  ELSE IF to = "molar" THEN ToMolarP(p, M1, M2) ELSE ToWeightP(p, M1, M2)

Convert(c, to, M1, M2) == [p |-> ConvP(c.p, c.type, to, M1, M2), type |-> to]

(* ---- the transition relation: post is the conversion of pre to `to` ---- *)
ConvRel(pre, to, post, M1, M2, scale) ==
  /\ post.type = to
  /\ IF pre.type = to THEN post.p = pre.p            \* identity: the very same value
     ELSE Eq(post.p, ConvP(pre.p, pre.type, to, M1, M2), scale)

(* ---- clauses of C15, as relations between an original composition o and *)
(* ---- any composition c derived from it by conversions                    *)
\* same type again => same value
RoundTrip(o, c, scale) == (c.type = o.type) => Eq(c.p, o.p, scale)
\* the ends are fixed points of both conversions
FixesEnds(o, c) == /\ (o.p = Zero => c.p = Zero)
                   /\ (o.p = One  => c.p = One)
\* first + second = 1
SumOne(c, first, second, scale) == Eq(Add(first, second), One, scale) /\ first = c.p
\* mole ratio = mass ratio * M2/M1, cross-multiplied:  x (1-w) M2 = w (1-x) M1 ... per direction
RatioLaw(o, c, M1, M2, scale) ==
  LET w == IF o.type = "weight" THEN o.p ELSE c.p
      x == IF o.type = "weight" THEN c.p ELSE o.p
  IN (c.type # o.type) =>
        Eq(Mul(Mul(x, Sub(One, w)), M1), Mul(Mul(w, Sub(One, x)), M2), Mul(Add(M1, M2), One))
\* the same law with a RELATIVE yardstick (a trace fraction of 1e-12 is converted as accurately, relatively, as a fraction of 0.3);
\* cond >= 1 carries the conditioning of 1 - w and 1 - x next to the other end
RatioLawRel(o, c, M1, M2, cond) ==
  LET w == IF o.type = "weight" THEN o.p ELSE c.p
      x == IF o.type = "weight" THEN c.p ELSE o.p
      lhs == Mul(Mul(x, Sub(One, w)), M1)
  IN (c.type # o.type) => Eq(lhs, Mul(Mul(w, Sub(One, x)), M2), Mul(lhs, cond))
\* order is preserved (a below b stays below)
Monotone(a, b) == Lt(a.p, b.p)
MonotoneWeak(a, b) == Le(a.p, b.p)
=============================================================================
