SPECIFICATION Spec
CONSTANT Variants = {"NRTL", "UNIQUAC"}
INVARIANT Inv_GibbsDuhem
INVARIANT Inv_PureLimit
INVARIANT Inv_PureExact
INVARIANT Inv_Raoult
INVARIANT Inv_Positive
CHECK_DEADLOCK FALSE
