------------------------------- MODULE F64 -------------------------------
(***************************************************************************)
(* IEEE-754 binary64 arithmetic for TLC.  A double is the tuple <<hi, lo>> *)
(* of its signed 32-bit halves.  Every operator is overridden by the Java  *)
(* class tlc2.module.F64 (tla/java); the bodies below are placeholders.    *)
(***************************************************************************)
LOCAL INSTANCE Integers
Lit(s)            == CHOOSE x \in {} : TRUE   \* decimal string -> double
FromInt(i)        == CHOOSE x \in {} : TRUE
FRat(n, d)        == CHOOSE x \in {} : TRUE   \* (double)n / (double)d
FAdd(a, b)        == CHOOSE x \in {} : TRUE
FSub(a, b)        == CHOOSE x \in {} : TRUE
FMul(a, b)        == CHOOSE x \in {} : TRUE
FDiv(a, b)        == CHOOSE x \in {} : TRUE
FNeg(a)           == CHOOSE x \in {} : TRUE
FAbs(a)           == CHOOSE x \in {} : TRUE
FSqrt(a)          == CHOOSE x \in {} : TRUE
FExp(a)           == CHOOSE x \in {} : TRUE
FLog(a)           == CHOOSE x \in {} : TRUE
FPow(a, b)        == CHOOSE x \in {} : TRUE
FPow10(a)         == CHOOSE x \in {} : TRUE
FPowInt(a, n)     == CHOOSE x \in {} : TRUE
FMax(a, b)        == CHOOSE x \in {} : TRUE
FMin(a, b)        == CHOOSE x \in {} : TRUE
FLt(a, b)         == CHOOSE x \in BOOLEAN : TRUE
FLe(a, b)         == CHOOSE x \in BOOLEAN : TRUE
FEqNum(a, b)      == CHOOSE x \in BOOLEAN : TRUE   \* numeric ==  (0.0 == -0.0, NaN # NaN)
FIsFinite(a)      == CHOOSE x \in BOOLEAN : TRUE
FIsNaN(a)         == CHOOSE x \in BOOLEAN : TRUE
FClose(a, b, rel) == CHOOSE x \in BOOLEAN : TRUE   \* |a-b| <= rel*max(|a|,|b|)
FCloseS(a, b, scale, rel) == CHOOSE x \in BOOLEAN : TRUE   \* |a-b| <= rel*max(|scale|,|a|,|b|)
FCloseA(a, b, abs) == CHOOSE x \in BOOLEAN : TRUE  \* |a-b| <= abs
FUlps(a, b)       == CHOOSE x \in {} : TRUE
FStr(a)           == CHOOSE x \in {} : TRUE
IsF64(v)          == CHOOSE x \in BOOLEAN : TRUE
=============================================================================
