SPECIFICATION Spec
INVARIANT KnownEvent
INVARIANT Cl_ClausiusClapeyron
INVARIANT Cl_IsIntegral
INVARIANT Cl_Additive
INVARIANT Cl_Antisymmetric
INVARIANT Cl_ZeroOnEmpty
INVARIANT Cl_Derivative
INVARIANT Ref_Psat
INVARIANT Ref_Hvap
INVARIANT Ref_Cp
INVARIANT Ref_Cooling
CHECK_DEADLOCK FALSE
