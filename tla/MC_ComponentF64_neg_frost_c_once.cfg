SPECIFICATION Spec
CONSTANT Deviation = "frost_c_once"
INVARIANT Inv_CC_FiniteDifference
INVARIANT Inv_CC_Analytic
INVARIANT Inv_PsatPositive
CHECK_DEADLOCK FALSE
