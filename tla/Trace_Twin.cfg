SPECIFICATION Spec
INVARIANT KnownEvent
INVARIANT Cl_PairRel
INVARIANT Cl_ScaleOutcome
INVARIANT Cl_ReportsMassFraction
INVARIANT Cl_MetricsRel
INVARIANT Cl_FnRel
INVARIANT Cl_CurveTwin
INVARIANT Cl_MeasTwin
INVARIANT KF_D3_Swap
INVARIANT Ref_TwinOutcome
INVARIANT Ref_FnOutcome
INVARIANT Ref_CurveOutcome
INVARIANT Ref_ExtractIsSpec
CHECK_DEADLOCK FALSE
