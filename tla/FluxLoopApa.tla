---------------------------- MODULE FluxLoopApa ----------------------------
(* Typed copy of FluxLoopAbstract (bounded variant) for Apalache: the bound is a symbolic constant, *)
(* so the inductive check covers every MaxIter, not only the value TLC enumerates.                 *)
EXTENDS Integers
CONSTANT
  \* @type: Int;
  MaxIter
VARIABLES
  \* @type: Str;
  dcls,
  \* @type: Int;
  n,
  \* @type: Str;
  pc

CInit == MaxIter \in Nat
AInit == dcls = "big" /\ n = 0 /\ pc = "start"
ASeed == pc = "start" /\ pc' \in {"loop", "raised"} /\ UNCHANGED <<dcls, n>>
AIterate == /\ pc = "loop" /\ dcls = "big" /\ n < MaxIter
            /\ \/ (dcls' \in {"big", "small"} /\ n' = n + 1 /\ pc' = pc)
               \/ (pc' = "raised" /\ UNCHANGED <<dcls, n>>)
AGiveUp == pc = "loop" /\ dcls = "big" /\ n >= MaxIter /\ pc' = "raised" /\ UNCHANGED <<dcls, n>>
AExit == pc = "loop" /\ dcls = "small" /\ pc' = "returned" /\ UNCHANGED <<dcls, n>>
ANext == ASeed \/ AIterate \/ AGiveUp \/ AExit
TypeOK == dcls \in {"big", "small"} /\ pc \in {"start", "loop", "raised", "returned"} /\ n \in Int
\* inductive invariant: the counter never exceeds the bound, and is 0 before the loop
IndInv == TypeOK /\ 0 <= n /\ n <= MaxIter /\ (pc = "start" => n = 0)
\* termination measure: while the loop keeps going, MaxIter - n strictly decreases and stays >= 0
MeasureDecreases == (pc = "loop" /\ pc' = "loop") => (MaxIter - n' < MaxIter - n /\ MaxIter - n' >= 0)
=============================================================================
