SPECIFICATION Spec
CONSTANT Dev = "none"
INVARIANT NeverReturned
CHECK_DEADLOCK FALSE
