------------------------------ MODULE MC_Units ------------------------------
(***************************************************************************)
(* Leg A for C14: every conversion path of length <= 3 over the three       *)
(* units (all 9 ordered pairs, all 27 triples) with exact rationals, for a  *)
(* value v and its multiple k*v; conversions with and without a component;  *)
(* construction clamps negative values.                                     *)
(***************************************************************************)
EXTENDS Integers, Sequences, TLC, Q
CONSTANT Deviation    \* "none" | "gpu_not_reciprocal" | "kg_forgets_mass" | "no_raise"

U == INSTANCE Units WITH Add <- QAdd, Sub <- QSub, Mul <- QMul, Div <- QDiv,
                         Lt <- QLt, Le <- QLe, Eq <- QEq, Dec <- QLit

Values == {QLit("-2"), QLit("0"), QLit("1e-12"), QLit("1"), QLit("3.7"), QLit("1e6")}
Scales == {QLit("2"), QRat(1, 3)}
Masses == {QLit("1"), QLit("18.02"), QLit("46.07"), QLit("250")}
AllUnits == U!Known \cup {"furlong"}

VARIABLES c, ck, o, k, M, n, last, arg     \* arg: the arguments of the last call (observable)
vars == <<c, ck, o, k, M, n, last, arg>>

Init == /\ M \in Masses /\ k \in Scales
        /\ \E v \in Values, u \in U!Known :
             /\ c = [value |-> U!Clamp(v), units |-> u]
             /\ ck = [value |-> U!Clamp(QMul(k, v)), units |-> u]
        /\ o = c /\ n = 0 /\ last = "new" /\ arg = <<>>

Conv(p, to) ==     \* conversion, possibly a named wrong design
  IF p.units = to THEN p
  ELSE IF Deviation = "gpu_not_reciprocal" /\ to = U!GPU
         THEN [value |-> QMul(QMul(p.value, U!Factor(p.units, M)), QLit("2.98e9")), units |-> to]
  ELSE IF Deviation = "kg_forgets_mass" /\ to = U!KG
         THEN [value |-> QMul(QMul(p.value, U!Factor(p.units, M)), QLit("3600")), units |-> to]
  ELSE [value |-> U!ConvertV(p.value, p.units, to, M), units |-> to]

Convert(to, hasM) ==
  /\ n < 3
  /\ IF U!MustRaise(c.units, to, hasM) /\ Deviation # "no_raise"
     THEN last' = "raise" /\ UNCHANGED <<c, ck>>
     ELSE last' = "ok" /\ c' = Conv(c, IF to \in U!Known THEN to ELSE U!SI)
                       /\ ck' = Conv(ck, IF to \in U!Known THEN to ELSE U!SI)
  /\ n' = n + 1 /\ arg' = <<to, hasM>> /\ UNCHANGED <<o, k, M>>

Next == \E to \in AllUnits, hasM \in BOOLEAN : Convert(to, hasM)
Spec == Init /\ [][Next]_vars

StepIsConvRel == [][U!ConvRel(c, arg'[1], arg'[2], M, c', last', QLit("1"))]_vars

Inv_PathIndependent == U!PathIndependent(o, c, M)
Inv_Invertible      == U!Invertible(o, c)
Inv_Linear          == U!Linear(c, ck, k)
Inv_NonNegative     == U!NonNegative(c) /\ U!NonNegative(ck)
Inv_Factors         == /\ U!FactorKG(U!ConvertV(QLit("1"), U!KG, U!SI, M), M)
                       /\ U!FactorGPU(U!ConvertV(QLit("1"), U!GPU, U!SI, M))
=============================================================================
