------------------------------ MODULE MC_Session ------------------------------
EXTENDS Session, TLC, Json
EntrySet == {"solver", "permeate_composition", "separation_factor", "ideal_curve", "nonideal_curve", "ideal_iso", "ideal_noniso",
             "nonideal_iso", "nonideal_noniso", "fit", "fit_zero", "best_fit", "best_fit_zero", "measurements", "get_permeance",
             "activation_energy", "curve_metrics", "solver_other_model", "solver_other_basis", "ideal_iso_other_model",
             "solver_nearby_T", "ideal_noniso_other_step",
             \* calls that FAIL are modelling calls too (an infeasible permeate side, a contradictory specification), and so are calls
             \* on a caller-owned grid that contains the pure end points
             "solver_infeasible", "solver_contradictory", "ideal_curve_ends", "ideal_curve_ends_other_model", "solver_ends",
             \* the same state asked to another precision
             "solver_other_precision"}
ObjectSet == {"membrane", "mixture", "curve_set", "conditions", "measurements", "pervaporation", "builtins"}
Done == Len(log) = MaxCalls /\ PrintT(<<"HISTORY", ToJson([j \in 1..Len(log) |-> log[j].entry])>>) /\ UNCHANGED vars
SimSpec == Init /\ [][Next \/ Done]_vars
=============================================================================
