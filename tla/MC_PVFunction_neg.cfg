SPECIFICATION Spec
CONSTANT Deviation = "rebase_keeps_b0"
INVARIANT Inv_Scales
INVARIANT Inv_Rebased
INVARIANT Inv_AtCurveTemperature
CHECK_DEADLOCK FALSE
