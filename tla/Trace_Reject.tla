------------------------------ MODULE Trace_Reject ------------------------------
(* Leg B/C for C19: Try{entry, class, model, invalid, outcome, exc}: one call of an entry point with a specification of   *)
(* the given invalid class (invalid = TRUE) or with the valid control specification.                                      *)
EXTENDS Integers, Sequences, TLC, F64Json, IOUtils
Trace == F64NdJson(IOEnv.TRACE_FILE)
R == INSTANCE Reject WITH Deviation <- "none", spec <- 0, outcome <- 0
VARIABLE l
Init == l \in 1..Len(Trace)
Next == FALSE /\ l' = l
Spec == Init /\ [][Next]_l
E == Trace[l]
KnownEvent == E.ev = "Try" /\ E.entry \in R!Entries /\ E.class \in R!Class(E.entry)
\* the specification the harness built for this class, as the record the Reject specification talks about
SpecOf(cls, model) ==
  [f \in R!Fields |->
     IF cls = "both_permeate" /\ f \in {"hasTperm", "haspperm"} THEN TRUE
     ELSE IF cls = "no_params" /\ f \in {"hasNRTL", "hasUQ"} THEN FALSE
     ELSE IF cls = "model_params_missing" /\ f = (IF model = "NRTL" THEN "hasNRTL" ELSE "hasUQ") THEN FALSE
     ELSE IF cls = "component_constants_missing" /\ f = "hasUQconst" THEN FALSE
     ELSE IF cls = "neither_flux_nor_permeance" /\ f \in {"hasFlux", "hasPerm"} THEN FALSE
     ELSE IF cls = "underdetermined_ea" /\ f \in {"twoExps", "statedEa"} THEN FALSE
     ELSE R!ValidSpec[f]]
Cl_RejectsInvalid == (E.invalid /\ ~R!Valid(E.entry, E.model, SpecOf(E.class, E.model))) => E.outcome = "raise"
\* every invalid row really is invalid for the specification (the table and the validity predicate agree)
Cl_RowIsInvalid == E.invalid => ~R!Valid(E.entry, E.model, SpecOf(E.class, E.model))
Ref_ControlAccepted == ~E.invalid => E.outcome = "ok"
=============================================================================
