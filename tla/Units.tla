------------------------------- MODULE Units -------------------------------
(***************************************************************************)
(* Permeance values and their units (pyvaporation/permeance/permeance.py). *)
(* A permeance is [value, units]; conversion goes through SI:               *)
(*   value * factor(from) / factor(to),                                     *)
(* factor(SI) = 1, factor(GPU) = 3.35e-10, factor(kg/(m2 h kPa)) = 1/(3600 M) *)
(* for a component of molar mass M g/mol.  Negative values are clamped to 0 *)
(* on construction.                                                         *)
(***************************************************************************)
CONSTANTS Add(_,_), Sub(_,_), Mul(_,_), Div(_,_), Lt(_,_), Le(_,_), Eq(_,_,_), Dec(_)

Zero == Dec("0")
One  == Dec("1")
KG  == "kg/(m2*h*kPa)"
SI  == "SI"
GPU == "GPU"
Known == {KG, SI, GPU}

Clamp(v) == IF Le(Zero, v) THEN v ELSE Zero          \* attr converter: x if x >= 0 else 0

\* to-SI factors exactly as the code writes them
Factor(u, M) == IF u = SI THEN One
                ELSE IF u = GPU THEN Dec("3.35e-10")
                ELSE Div(One, Mul(M, Dec("3.6e3")))

ConvertV(v, from, to, M) == IF from = to THEN v
                            ELSE Clamp(Div(Mul(v, Factor(from, M)), Factor(to, M)))

\* when must a conversion raise instead of returning a number?  (hasM: a component is supplied)
MustRaise(from, to, hasM) ==
  /\ from # to
  /\ \/ from \notin Known \/ to \notin Known
     \/ (~hasM /\ (from = KG \/ to = KG))

(* the transition relation of  p.convert(to, component)                                    *)
ConvRel(pre, to, hasM, M, post, outcome, scale) ==
  IF MustRaise(pre.units, to, hasM)
  THEN outcome = "raise"
  ELSE /\ outcome = "ok"
       /\ post.units = to
       /\ IF pre.units = to THEN post.value = pre.value
          ELSE Eq(post.value, ConvertV(pre.value, pre.units, to, M), scale)

(* ---- clauses of C14 for a permeance c reached from an original o by any conversion path *)
PathIndependent(o, c, M) == Eq(c.value, ConvertV(o.value, o.units, c.units, M), c.value)
Invertible(o, c)         == (c.units = o.units) => Eq(c.value, o.value, o.value)
Linear(c, ck, k)         == Eq(ck.value, Mul(k, c.value), ck.value)      \* ck is the same path applied to k*o
NonNegative(c)           == Le(Zero, c.value)
\* the two defining factors, as seen through conversions of the value 1
FactorKG(si_of_one_kg, M)  == Eq(Mul(si_of_one_kg, Mul(Dec("3600"), M)), One, One)
FactorGPU(si_of_one_gpu)   == Eq(si_of_one_gpu, Dec("3.35e-10"), si_of_one_gpu)
=============================================================================
