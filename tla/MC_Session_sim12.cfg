SPECIFICATION SimSpec
CONSTANT Entries <- EntrySet
CONSTANT Objects <- ObjectSet
CONSTANT Impure = {}
CONSTANT MaxCalls = 12
CHECK_DEADLOCK FALSE
