SPECIFICATION Spec
CONSTANT Names = {"a", "b"}
CONSTANT Models = {"m1", "m2"}
CONSTANT Rename = FALSE
CONSTANT Overwrite = FALSE
CONSTANT MaxSaves = 3
INVARIANT RoundTrip
PROPERTY OldDirsImmutable
PROPERTY FreshDirOrRaise
CHECK_DEADLOCK FALSE
