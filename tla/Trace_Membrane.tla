---------------------------- MODULE Trace_Membrane ----------------------------
(***************************************************************************)
(* Leg B for C12.  One trace per real Membrane object:                      *)
(*  Mem{online, ea1, ea2, M1, M2, exps1, exps2}                              *)
(*  Query{which, T, p, ea}   get_permeance and calculate_activation_energy  *)
(*  Flux{which, T, mode, p, flux, psatFeed, pPerm}                          *)
(*  Sel{T, selMolar, selWeight, p1, p2}                                     *)
(* results are records [raise, v].                                          *)
(***************************************************************************)
EXTENDS Integers, Sequences, TLC, F64, F64Json, IOUtils

Trace == F64NdJson(IOEnv.TRACE_FILE)
EqT(x, y, s) == FCloseS(x, y, s, Lit("1e-9"))
EqE(x, y, s) == FCloseS(x, y, s, Lit("1e-7"))
M  == INSTANCE Membrane WITH Add <- FAdd, Sub <- FSub, Mul <- FMul, Div <- FDiv, Lt <- FLt, Le <- FLe,
                             Eq <- EqT, Dec <- Lit, Exp <- FExp, Ln <- FLog, Pow10 <- FPow10, Num <- FromInt
ME == INSTANCE Membrane WITH Add <- FAdd, Sub <- FSub, Mul <- FMul, Div <- FDiv, Lt <- FLt, Le <- FLe,
                             Eq <- EqE, Dec <- Lit, Exp <- FExp, Ln <- FLog, Pow10 <- FPow10, Num <- FromInt

VARIABLE l
Starts == {j \in 1..Len(Trace) : Trace[j].i = 0}
Init == l \in Starts
Next == l < Len(Trace) /\ Trace[l + 1].i > 0 /\ l' = l + 1
Spec == Init /\ [][Next]_l
E == Trace[l]
O == Trace[l - E.i]
Exps == IF E.which = 1 THEN O.exps1 ELSE O.exps2
TrueEa == IF E.which = 1 THEN O.ea1 ELSE O.ea2

KnownEvent == E.ev \in {"Mem", "Query", "Flux", "Sel"}

Cl_AtExperiment == (E.ev = "Query") => M!AtExperiment(Exps, E.T, E.p)
Cl_ArrheniusLaw == (E.ev = "Query") => M!ArrheniusLaw(Exps, E.T, E.p, E.ea)
Cl_Regression   == (E.ev = "Query") =>
                     /\ ME!RegressionLaw(Exps, E.ea, FMax(FAbs(E.ea.v), Lit("1000.0")))
                     /\ (Len(Exps) < 2 => (E.ea.raise <=> ~Exps[1].hasEa))
                     \* (through the CSV loader a number may come back one ulp off: pandas' fast float parser)
                     /\ (Len(Exps) < 2 /\ Exps[1].hasEa => FCloseS(E.ea.v, Exps[1].Ea, Exps[1].Ea, Lit("1e-12")))
\* experiments exactly on an Arrhenius line: Ea recovered, permeance on the line whichever experiment is nearest
Cl_RecoversEa   == (E.ev = "Query" /\ O.online /\ Len(Exps) >= 2) =>
                     EqE(E.ea.v, TrueEa, FMax(FAbs(TrueEa), Lit("1000.0")))
Cl_OnTheLine    == (E.ev = "Query" /\ O.online /\ ~E.p.raise /\ (Len(Exps) >= 2 \/ Exps[1].hasEa)
                                   /\ (\A j \in 1..Len(Exps) : Exps[j].hasEa => Exps[j].Ea = TrueEa)) =>
                     LET e == Exps[1]
                     IN EqE(E.p.v, FMul(e.P, M!ArrheniusFactor(TrueEa, E.T, e.T)), E.p.v)
\* relations are asserted on finite operands only (an off-line regression over nearly equal temperatures
\* can extrapolate to an infinite permeance)
\* (a regression over experiments a few kelvin apart extrapolates to permeances like 1e-303 and 1e46, whose quotient underflows:
\*  the relation is asserted where the numbers are representable with full precision)
Moderate(v) == FLt(Lit("1e-150"), v) /\ FLt(v, Lit("1e150"))
Cl_Selectivity  == (E.ev = "Sel" /\ ~E.selMolar.raise /\ ~E.selWeight.raise /\ FIsFinite(E.p1.v) /\ FIsFinite(E.p2.v)
                                 /\ Moderate(E.p1.v) /\ Moderate(E.p2.v)
                                 /\ FLt(Lit("0.0"), E.p2.v) /\ FIsFinite(E.selWeight.v) /\ FIsFinite(E.selMolar.v)) =>
                     /\ M!SelectivityLaw(E.selMolar.v, E.selWeight.v, O.M1, O.M2, FMul(E.selMolar.v, O.M1))
                     /\ M!SelectivityDef(E.selWeight.v, E.p1.v, E.p2.v, E.p1.v)
Cl_PureFlux     == (E.ev = "Flux") =>
                     IF E.mode = "both" THEN E.flux.raise
                     ELSE IF E.p.raise THEN E.flux.raise
                     ELSE ~E.flux.raise /\ (FIsFinite(E.p.v) =>
                                               M!PureFlux(E.flux.v, E.p.v, E.psatFeed, E.pPerm, FMul(E.p.v, E.psatFeed)))
Ref_Permeance   == (E.ev = "Query") =>
                     LET r == M!Permeance(Exps, E.T)
                     IN (r.raise <=> E.p.raise) /\ (~r.raise => EqE(r.v, E.p.v, r.v))
=============================================================================
