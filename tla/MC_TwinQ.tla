------------------------------- MODULE MC_TwinQ -------------------------------
(***************************************************************************)
(* Leg A for C11 and the process part of C06: the product of two Process    *)
(* machines run in lock-step on related inputs (exact rationals, free       *)
(* fluxes).                                                                 *)
(*  Rel = "scale":  run B has area and feed amount times K                  *)
(*        "trade":  run B has area times K and step length divided by K     *)
(*                  (no temperature programme)                              *)
(*        "swap":   run B is run A with the two components exchanged:       *)
(*                  x0 -> 1 - x0 and, in the environment, J1<->J2, h1<->h2,  *)
(*                  cp1<->cp2                                               *)
(* Invariant: the series of B are the images of the series of A; both runs  *)
(* step, raise and finish together.                                         *)
(* Negative configurations apply a named wrong design of Process to both    *)
(* runs: "area_once" (second component's removal forgets the area) breaks   *)
(* scale and trade, "iso_heats_as_written" (D1) and "mass_one_flux" break   *)
(* the swap relation.                                                       *)
(***************************************************************************)
EXTENDS Integers, Sequences, TLC, Q
CONSTANTS Rel, K, DevB      \* DevB: deviation applied to BOTH runs ("none" | a Process deviation)
VARIABLES runA, timeA, mA, xA, TA, JA, yA, PA, QeA, QcA, pcA,
          runB, timeB, mB, xB, TB, JB, yB, PB, QeB, QcB, pcB

A == INSTANCE Process WITH Add <- QAdd, Sub <- QSub, Mul <- QMul, Div <- QDiv, Lt <- QLt, Le <- QLe,
                           Eq <- QEq, Dec <- QLit, Num <- QInt, Dev <- DevB,
                           run <- runA, time <- timeA, m <- mA, x <- xA, T <- TA, J <- JA, y <- yA, P <- PA,
                           Qe <- QeA, Qc <- QcA, pc <- pcA
B == INSTANCE Process WITH Add <- QAdd, Sub <- QSub, Mul <- QMul, Div <- QDiv, Lt <- QLt, Le <- QLe,
                           Eq <- QEq, Dec <- QLit, Num <- QInt, Dev <- DevB,
                           run <- runB, time <- timeB, m <- mB, x <- xB, T <- TB, J <- JB, y <- yB, P <- PB,
                           Qe <- QeB, Qc <- QcB, pc <- pcB

One == QLit("1")
Runs == {r \in [N: {1, 2, 3}, dt: {QRat(1, 2)}, A: {QLit("2")}, m0: {QLit("8")}, x0w: {QRat(1, 4)}, T0: {QLit("300")},
                iso: BOOLEAN, ideal: BOOLEAN, hasTperm: BOOLEAN, hasProg: BOOLEAN, guarded: {TRUE}] :
           (r.iso => ~r.hasProg) /\ (Rel = "trade" => ~r.hasProg)}
Envs == [J1: {QRat(1, 8), QLit("3")}, J2: {QRat(1, 2), QLit("7")}, h1: {QLit("2")}, h2: {QLit("1")}, massratio: {QLit("3")},
         cp1: {QLit("1")}, cp2: {QLit("3")}, prog: {QLit("310")}, qc: {QLit("5")}, P: {"pa"}, Pnext: {"pb"}]

TrRun(r) == IF Rel = "scale" THEN [r EXCEPT !.A = QMul(K, @), !.m0 = QMul(K, @)]
            ELSE IF Rel = "trade" THEN [r EXCEPT !.A = QMul(K, @), !.dt = QDiv(@, K)]
            ELSE [r EXCEPT !.x0w = QSub(One, @)]
TrEnv(e) == IF Rel = "swap" THEN [e EXCEPT !.J1 = e.J2, !.J2 = e.J1, !.h1 = e.h2, !.h2 = e.h1, !.cp1 = e.cp2, !.cp2 = e.cp1]
            ELSE IF Rel = "scale" THEN [e EXCEPT !.qc = QMul(K, @)]
            ELSE e

varsAB == <<runA, timeA, mA, xA, TA, JA, yA, PA, QeA, QcA, pcA, runB, timeB, mB, xB, TB, JB, yB, PB, QeB, QcB, pcB>>
Init == /\ pcA = "init" /\ runA = <<>> /\ timeA = <<>> /\ mA = <<>> /\ xA = <<>> /\ TA = <<>> /\ JA = <<>> /\ yA = <<>>
        /\ PA = <<>> /\ QeA = <<>> /\ QcA = <<>>
        /\ pcB = "init" /\ runB = <<>> /\ timeB = <<>> /\ mB = <<>> /\ xB = <<>> /\ TB = <<>> /\ JB = <<>> /\ yB = <<>>
        /\ PB = <<>> /\ QeB = <<>> /\ QcB = <<>>
Next == \/ \E r \in Runs : A!Start(r, "p0") /\ B!Start(TrRun(r), "p0")
        \/ \E e \in Envs : (A!Step(e) /\ B!Step(TrEnv(e))) \/ (A!Raise(e) /\ B!Raise(TrEnv(e)))
        \/ (A!Finish /\ B!Finish)
Spec == Init /\ [][Next]_varsAB

Map(s, F(_)) == [j \in 1..Len(s) |-> F(s[j])]
TimesK(v) == QMul(K, v)
OneMinus(v) == QSub(One, v)
SwapPair(p) == <<p[2], p[1]>>
Ident(v) == v
QcTimesK(v) == IF v = A!NoHeat THEN v ELSE QMul(K, v)

Inv_Together == pcA = pcB /\ Len(JA) = Len(JB)
Inv_SameGuards == (pcA = "loop" /\ pcB = "loop") => \A e \in Envs : A!CanStep(e) <=> B!CanStep(TrEnv(e))
Inv_Related ==
  IF Rel = "scale" THEN /\ mB = Map(mA, TimesK) /\ xB = xA /\ TB = TA /\ JB = JA /\ yB = yA
                        /\ QeB = Map(QeA, TimesK) /\ QcB = Map(QcA, QcTimesK) /\ timeB = timeA
  ELSE IF Rel = "trade" THEN /\ mB = mA /\ xB = xA /\ TB = TA /\ JB = JA /\ yB = yA /\ QeB = QeA /\ QcB = QcA
  ELSE /\ mB = mA /\ xB = Map(xA, OneMinus) /\ TB = TA /\ JB = Map(JA, SwapPair) /\ yB = Map(yA, OneMinus)
       /\ QeB = QeA /\ timeB = timeA
=============================================================================
