--------------------------- MODULE Trace_FluxSolver ---------------------------
(***************************************************************************)
(* Leg B for C02 and C10.  One trace per call of the real                   *)
(* Pervaporation.calculate_partial_fluxes:                                  *)
(*  Call{mix, model, mode, T, xw, ctype, prec, Tperm, pperm, P1, P2, pf}     *)
(*  Eval{k, y, ytype, J, pp_mass, pp_molar}   every evaluation of the       *)
(*        driving force (wrapped public method), in order; pf / pp are      *)
(*        oracle values from the public get_partial_pressures               *)
(*  Gap{skipped}     evaluations not logged (only the first and last 30)    *)
(*  End{outcome, J, n, hasL, L, budget}      return | raise | abort         *)
(*  Twin{k, outcome, J, n, ystar}            the same call with k*P1, k*P2  *)
(* The recorded evaluations must be a behaviour of FluxSolver: Seed,        *)
(* Iterate*, Exit / raise.                                                  *)
(***************************************************************************)
EXTENDS Integers, Sequences, TLC, F64, F64Json, IOUtils

Trace == F64NdJson(IOEnv.TRACE_FILE)
EqX(x, y, s) == FCloseS(x, y, s, Lit("1e-12"))
EqR(x, y, s) == FCloseS(x, y, s, Lit("1e-9"))
NoPP(i, yy) == <<Lit("0.0"), Lit("0.0")>>
VARIABLES l
\* the solver's own state variables are not used here: the trace specification uses FluxSolver's pure operators
S == INSTANCE FluxSolver WITH Add <- FAdd, Sub <- FSub, Mul <- FMul, Div <- FDiv, Lt <- FLt, Le <- FLe,
                              Eq <- EqX, Dec <- Lit, PermPress <- NoPP, Bounded <- TRUE, MaxIter <- 0,
                              inp <- l, y <- l, d <- l, n <- l, pc <- l, J <- l
Th == INSTANCE Thermo WITH Add <- FAdd, Sub <- FSub, Mul <- FMul, Div <- FDiv, Lt <- FLt, Le <- FLe,
                           Eq <- EqR, Dec <- Lit, Exp <- FExp, Ln <- FLog, Pow10 <- FPow10

Starts == {j \in 1..Len(Trace) : Trace[j].i = 0}
Init == l \in Starts
Next == l < Len(Trace) /\ Trace[l + 1].i > 0 /\ l' = l + 1
Spec == Init /\ [][Next]_l
E   == Trace[l]
O   == Trace[l - E.i]                    \* the Call line
Pre == Trace[l - 1]
HasNext == l < Len(Trace) /\ Trace[l + 1].i > 0
Nxt == Trace[l + 1]
IsEval(r) == r.ev = "Eval"
Evals(endl) == {j \in (endl - Trace[endl].i + 1)..(endl - 1) : Trace[j].ev = "Eval"}
One == Lit("1.0")
Near(prec) == FMul(prec, Lit("1e-9"))

KnownEvent == E.ev \in {"Call", "Eval", "Gap", "End", "Twin", "Model"}

(* ---------------- the recorded evaluations are steps of FluxSolver ---------------- *)
Step_Seed == (IsEval(E) /\ E.k = 1) =>
               /\ E.ytype = "weight"
               /\ EqX(E.y, S!Y(<<FMul(O.P1, O.pf[1]), FMul(O.P2, O.pf[2])>>), One)
Step_Iterate == (IsEval(E) /\ IsEval(Pre) /\ E.k = Pre.k + 1) =>
               /\ E.ytype = "weight"
               /\ EqX(E.y, S!Y(Pre.J), One)
\* an evaluation that is followed by another one belongs to the loop: the change that preceded it was >= precision;
\* the last evaluation of a returning call is the final re-evaluation: the change that preceded it was < precision
Step_LoopRule == (IsEval(E) /\ IsEval(Pre) /\ E.k = Pre.k + 1 /\ HasNext) =>
               LET dd == S!Dist(Pre.y, E.y)
               IN IF Nxt.ev \in {"Eval", "Gap"} \/ (Nxt.ev = "End" /\ Nxt.outcome # "return")
                  THEN FLe(FSub(O.prec, Near(O.prec)), dd)
                  ELSE FLt(dd, FAdd(O.prec, Near(O.prec)))
Step_Final == (E.ev = "End" /\ E.outcome = "return") => (IsEval(Pre) /\ E.J = Pre.J /\ E.n = Pre.k /\ E.n >= 2)

(* ------------------------------- clauses of C02 ---------------------------------- *)
PPb(r, b) == IF b = "mass" THEN r.pp_mass ELSE r.pp_molar
Fin2(p) == FIsFinite(p[1]) /\ FIsFinite(p[2])          \* relations are asserted on finite operands only
LawAt(r, b) == LET pp == PPb(r, b)
               IN (Fin2(r.J) /\ Fin2(pp) /\ Fin2(O.pf)) =>
                  /\ EqX(r.J[1], FMul(O.P1, FSub(O.pf[1], pp[1])), FMul(O.P1, FMax(O.pf[1], pp[1])))
                  /\ EqX(r.J[2], FMul(O.P2, FSub(O.pf[2], pp[2])), FMul(O.P2, FMax(O.pf[2], pp[2])))
\* the law holds at every evaluation (hence at the returned one), in one consistent reading of "p times fraction"
\* and the returned fluxes are those of the last evaluation
Cl_Law == (E.ev = "End") => /\ \E b \in {"mass", "molar"} : \A j \in Evals(l) : LawAt(Trace[j], b)
                            /\ ((E.outcome = "return" /\ IsEval(Pre)) => E.J = Pre.J)
\* The same clause without looking at the iteration: the returned fluxes obey the law at a permeate composition within
\* `precision` of their own composition yJ = Y(J).  With pp evaluated (oracle) at yJ itself the law can be off by at most
\* P_i |dpp_i/dy| precision (first order); asserted where the map is contractive at yJ.
OwnTol(i, P) == FAdd(FMul(FMul(P, FAbs(E.dppY[i])), FMul(O.prec, Lit("3.0"))),
                     FMul(Lit("1e-9"), FMul(P, FAdd(O.pf[i], FAbs(E.ppY[i])))))
OwnAt(pp) == /\ FLe(FAbs(FSub(E.J[1], FMul(O.P1, FSub(O.pf[1], pp[1])))), OwnTol(1, O.P1))
             /\ FLe(FAbs(FSub(E.J[2], FMul(O.P2, FSub(O.pf[2], pp[2])))), OwnTol(2, O.P2))
Cl_LawAtOwnComposition == (E.ev = "End" /\ E.outcome = "return" /\ E.hasOwn /\ FLt(E.Lown, Lit("0.9"))
                           /\ (E.hasL => FLt(E.L, Lit("0.9")))          \* contractive also where the iteration stopped
                           /\ Fin2(E.J) /\ Fin2(E.ppY) /\ Fin2(E.dppY) /\ Fin2(O.pf)) =>
                          (OwnAt(E.ppY) \/ OwnAt(E.ppYmolar))
\* |Y(J) - y_n| = |g(y_n) - g(y_n-1)| <= L |y_n - y_n-1| < L precision, L the largest slope BETWEEN the last two iterates.  The slope
\* is measured at the stopping point; with a coarse precision and a strongly curved map it is larger a precision away (1.08 against
\* 0.95 met at precision 1e-3), so up to 0.97 is accepted only for fine precisions, where the two points all but coincide
ContractiveAtStop == FLt(E.L, Lit("0.9")) \/ (FLe(O.prec, Lit("1e-6")) /\ FLt(E.L, Lit("0.97")))
Cl_SelfConsistent == (E.ev = "End" /\ E.outcome = "return" /\ E.hasL /\ ContractiveAtStop) =>
                       FLe(FAbs(FSub(S!Y(E.J), Pre.y)), FAdd(O.prec, Near(O.prec)))
Cl_VacuumExact == (E.ev = "End" /\ E.outcome = "return" /\ (O.mode \in {"vac", "press0"})) =>
                       /\ EqX(E.J[1], FMul(O.P1, O.pf[1]), E.J[1]) /\ EqX(E.J[2], FMul(O.P2, O.pf[2]), E.J[2])
Cl_PPIdentity == (E.ev = "End" /\ E.outcome = "return" /\ O.mode \in {"press", "press0"}) =>
                       EqX(FAdd(FDiv(E.J[1], O.P1), FDiv(E.J[2], O.P2)), FSub(FAdd(O.pf[1], O.pf[2]), O.pperm),
                           FAdd(FAdd(O.pf[1], O.pf[2]), O.pperm))
\* k*P: fluxes times k, same permeate composition (compared at rounding level when both runs took the same
\* number of evaluations, i.e. no precision-threshold race)
Cl_Homogeneous == (E.ev = "Twin" /\ Pre.outcome = "return" /\ Pre.hasL /\ FLt(Pre.L, Lit("0.9"))) =>
                       \* (where the map is not contractive the iteration is chaotic and amplifies the rounding
                       \*  differences between the two runs; nothing is asserted there)
                       /\ E.outcome = "return"
                       /\ (E.n = Pre.n /\ Fin2(E.J) /\ Fin2(Pre.J) /\ Fin2(Trace[l - 2].pp_mass)) =>
                            \* rounding of y* (1 ulp) moves each flux by P_i |dpp_i/dy| ulp: measure against the
                            \* sum of all partial pressures involved, not against a possibly tiny flux
                            LET ptot == FAdd(FAdd(O.pf[1], O.pf[2]), FAdd(FAbs(Trace[l - 2].pp_mass[1]), FAbs(Trace[l - 2].pp_mass[2])))
                            IN /\ EqR(E.J[1], FMul(E.k, Pre.J[1]), FMul(FMul(E.k, O.P1), ptot))
                               /\ EqR(E.J[2], FMul(E.k, Pre.J[2]), FMul(FMul(E.k, O.P2), ptot))
                               /\ EqR(E.ystar, Trace[l - 2].y, One)

(* ------------------------------- clause of C10 ----------------------------------- *)
Cl_Terminates == (E.ev = "End") => (E.outcome \in {"return", "raise"} /\ E.n <= E.budget)
Cl_TwinTerminates == (E.ev = "Twin") => E.outcome \in {"return", "raise"}
\* Model{kind, N, outcome, n, budget}: a whole process / curve model run under the evaluation counter
Cl_ModelTerminates == (E.ev = "Model") => (E.outcome \in {"return", "raise"} /\ E.n <= E.budget)

(* ------------------------------ reference semantics ------------------------------ *)
Variants(model) == IF model = "NRTL" THEN {"NRTL"} ELSE {"UNIQUAC", "UNIQUAC_AsImplemented"}
RefPP(v, yy) == IF O.mode = "vac" THEN <<Lit("0.0"), Lit("0.0")>>
                ELSE IF O.mode = "temp" THEN Th!PartialPressures(O.mix, v, O.Tperm, yy, "weight")
                ELSE <<FMul(O.pperm, yy), FMul(O.pperm, FSub(One, yy))>>
Ref_Eval == IsEval(E) => \E v \in Variants(O.model) :
              LET pf == Th!PartialPressures(O.mix, v, O.T, O.xw, O.ctype)
                  j  == S!FluxAt(O.P1, O.P2, pf, RefPP(v, E.y))
              IN (Fin2(E.J) /\ Fin2(j)) =>
                   /\ EqR(E.J[1], j[1], FMul(O.P1, pf[1])) /\ EqR(E.J[2], j[2], FMul(O.P2, pf[2]))
=============================================================================
