----------------------------- MODULE MC_ProcessQ -----------------------------
(***************************************************************************)
(* Leg A for C01, C03, C18 (and the length/index bookkeeping of C05): whole *)
(* runs of the Process machine with exact rationals.  Fluxes, latent heats, *)
(* heat capacities, programme values and permeances are FREE (chosen by     *)
(* TLC from small sets at every step), so the result holds for any flux     *)
(* function, mixture, model and permeate mode.  A large flux exhausts the   *)
(* feed within the run, which exercises the guard and the Raise action.     *)
(***************************************************************************)
EXTENDS Integers, Sequences, TLC, Q, Json, IOUtils
CONSTANTS Dev, Guarded
VARIABLES run, time, m, x, T, J, y, P, Qe, Qc, pc

Pr == INSTANCE Process WITH Add <- QAdd, Sub <- QSub, Mul <- QMul, Div <- QDiv, Lt <- QLt, Le <- QLe,
                            Eq <- QEq, Dec <- QLit, Num <- QInt

Runs == {r \in [N: {1, 2, 4}, dt: {QRat(1, 2)}, A: {QLit("2")}, m0: {QLit("8")}, x0w: {QRat(1, 4)}, T0: {QLit("300")},
                iso: BOOLEAN, ideal: BOOLEAN, hasTperm: BOOLEAN, hasProg: BOOLEAN, guarded: {Guarded}] :
           r.iso => ~r.hasProg}
Envs == [J1: {QRat(1, 8), QLit("3")}, J2: {QRat(1, 2), QLit("7")}, h1: {QLit("2")}, h2: {QLit("1")}, massratio: {QLit("3")},
         cp1: {QLit("1")}, cp2: {QLit("3")}, prog: {QLit("310")}, qc: {QLit("5")}, P: {"pa"}, Pnext: {"pb"}]

\* leg C: the run shapes TLC enumerates are written out; the recorded runs of the real models must cover every one of them
Shapes == {[N |-> r.N, iso |-> r.iso, ideal |-> r.ideal, hasTperm |-> r.hasTperm, hasProg |-> r.hasProg] : r \in Runs}
RECURSIVE SetToSeqR(_)
SetToSeqR(S) == IF S = {} THEN <<>> ELSE LET z == CHOOSE z \in S : TRUE IN <<z>> \o SetToSeqR(S \ {z})
ASSUME IF "SHAPE_FILE" \in DOMAIN IOEnv THEN ndJsonSerialize(IOEnv.SHAPE_FILE, SetToSeqR(Shapes)) ELSE TRUE

Init == /\ pc = "init" /\ run = <<>> /\ time = <<>> /\ m = <<>> /\ x = <<>> /\ T = <<>> /\ J = <<>> /\ y = <<>>
        /\ P = <<>> /\ Qe = <<>> /\ Qc = <<>>
Next == \/ \E r \in Runs : Pr!Start(r, "p0")
        \/ \E e \in Envs : Pr!Step(e) \/ Pr!Raise(e)
        \/ Pr!Finish
Spec == Init /\ [][Next]_Pr!vars

E0 == CHOOSE e \in Envs : TRUE        \* the constant part of the environment (h, cp, prog)
Inv_Len       == Pr!LenOK
Inv_Init0     == Pr!Init0
Inv_TimeGrid  == Pr!TimeGrid
Inv_MassBal   == Pr!MassBal
Inv_CompBal   == Pr!CompBal
Inv_Y         == Pr!YFromFluxes
Inv_IsoConst  == Pr!IsoConst
Inv_QcondIff  == Pr!QcondIff
Inv_Admissible == Pr!AdmissibleStates
\* C03 on the series, with the (constant) heats of the environment
St(k) == [m |-> m[k], x |-> x[k], T |-> T[k], J1 |-> J[k][1], J2 |-> J[k][2], Qevap |-> Qe[k]]
Inv_Qevap     == Pr!Returned => \A k \in 1..run.N : Pr!QevapRel(St(k), run, E0.h1, E0.h2)
Inv_SelfCool  == (Pr!Returned /\ ~run.iso /\ ~run.hasProg) =>
                   \A k \in 1..(run.N - 1) : Pr!SelfCoolRel(St(k), St(k + 1), E0.cp1, E0.cp2)
Inv_Programme == (Pr!Returned /\ run.hasProg) => \A k \in 2..run.N : T[k] = E0.prog
\* a raise leaves nothing reported; a return reports only admissible states
Inv_RaisedOrReturned == pc \in {"init", "loop", "raised", "returned"}
=============================================================================
