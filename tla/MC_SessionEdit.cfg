SPECIFICATION Spec
CONSTANT Entries <- SmallEntries
CONSTANT Objects <- ObjectSet
CONSTANT Editable <- SmallEdits
CONSTANT Stale = {}
CONSTANT MaxSteps = 5
INVARIANT SameAsFreshOnHeld
PROPERTY CallsKeepHeld
CHECK_DEADLOCK FALSE
