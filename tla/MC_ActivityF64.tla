---------------------------- MODULE MC_ActivityF64 ----------------------------
(***************************************************************************)
(* Leg A for C04: a composition sweep x = 0.05..0.95 at five temperatures   *)
(* over the code's own built-in mixtures (exported by the harness) and      *)
(* synthetic parameter sets, in IEEE arithmetic, for each model variant.    *)
(* Invariants: Gibbs-Duhem (five-point differences of the specification's   *)
(* own gammas), pure-component limits, Raoult's law for vanishing NRTL      *)
(* parameters, positivity.  The named deviation UNIQUAC_AsImplemented must  *)
(* violate Gibbs-Duhem (negative configuration).                            *)
(***************************************************************************)
EXTENDS Integers, Sequences, TLC, F64, F64Json, IOUtils
CONSTANT Variants

Mixes == F64NdJson(IOEnv.MIX_FILE)
EqD(x, y, s) == FCloseS(x, y, s, Lit("1e-6"))
A == INSTANCE Activity WITH Add <- FAdd, Sub <- FSub, Mul <- FMul, Div <- FDiv, Lt <- FLt, Le <- FLe,
                            Eq <- EqD, Dec <- Lit, Exp <- FExp, Ln <- FLog, Pow10 <- FPow10

Temps == <<Lit("273.15"), Lit("300.0"), Lit("333.15"), Lit("366.0"), Lit("400.0")>>
VARIABLES mi, variant, ti, xi
vars == <<mi, variant, ti, xi>>
Init == mi \in 1..Len(Mixes) /\ variant \in Variants /\ ti \in 1..Len(Temps) /\ xi = 1
Sweep == xi < 19 /\ xi' = xi + 1 /\ UNCHANGED <<mi, variant, ti>>
Next == Sweep
Spec == Init /\ [][Next]_vars

M == Mixes[mi]
T == Temps[ti]
X == FRat(xi, 20)
h == Lit("2e-4")
G(x) == A!Gammas(M, variant, T, x)
Stencil(k) == <<G(FSub(X, FMul(Lit("2.0"), h)))[k], G(FSub(X, h))[k], G(X)[k], G(FAdd(X, h))[k], G(FAdd(X, FMul(Lit("2.0"), h)))[k]>>

Inv_GibbsDuhem == A!GibbsDuhem(X, Stencil(1), Stencil(2), h)
Inv_PureLimit  == /\ A!PureLimit(G(Lit("0.9999"))[1], G(Lit("0.999999"))[1], G(Lit("0.99999999"))[1])
                  /\ A!PureLimit(G(Lit("1e-4"))[2], G(Lit("1e-6"))[2], G(Lit("1e-8"))[2])
Inv_PureExact  == variant = "NRTL" => G(Lit("1.0"))[1] = Lit("1.0") /\ G(Lit("0.0"))[2] = Lit("1.0")
Inv_Raoult     == (M.raoult /\ variant = "NRTL") => G(X) = <<Lit("1.0"), Lit("1.0")>>
Inv_Positive   == FLt(Lit("0.0"), G(X)[1]) /\ FLt(Lit("0.0"), G(X)[2]) /\ FIsFinite(G(X)[1]) /\ FIsFinite(G(X)[2])
=============================================================================
