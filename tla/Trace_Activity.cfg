SPECIFICATION Spec
INVARIANT KnownEvent
INVARIANT Cl_GibbsDuhem
INVARIANT Cl_PureLimit
INVARIANT Cl_Raoult
INVARIANT Cl_PartialPressure
INVARIANT Cl_BasisIndependent
INVARIANT KF_D3_GibbsDuhem
INVARIANT Ref_Gamma
CHECK_DEADLOCK FALSE
