SPECIFICATION Spec
CONSTANT Dev = "none"
CONSTANT Guarded = FALSE
INVARIANT Inv_Len
INVARIANT Inv_Init0
INVARIANT Inv_TimeGrid
INVARIANT Inv_MassBal
INVARIANT Inv_CompBal
INVARIANT Inv_Y
INVARIANT Inv_IsoConst
INVARIANT Inv_QcondIff
INVARIANT Inv_Admissible
INVARIANT Inv_Qevap
INVARIANT Inv_SelfCool
INVARIANT Inv_Programme
CHECK_DEADLOCK FALSE
