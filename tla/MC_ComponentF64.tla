--------------------------- MODULE MC_ComponentF64 ---------------------------
(***************************************************************************)
(* Leg A for C13 (transcendental part, IEEE doubles): a temperature sweep   *)
(* 200..500 K over the constant sets of the code's own built-in components  *)
(* (exported by the harness, not copied) and synthetic ones.  At every      *)
(* state the specification's Hvap satisfies Clausius-Clapeyron against a    *)
(* central difference of its own Psat and against the analytic derivative.  *)
(***************************************************************************)
EXTENDS Integers, Sequences, TLC, F64, F64Json, IOUtils
CONSTANT Deviation      \* "none" | "no_square" | "frost_c_once"

Comps == F64NdJson(IOEnv.COMP_FILE)
EqD(x, y, s) == FCloseS(x, y, s, Lit("1e-5"))
EqX(x, y, s) == FCloseS(x, y, s, Lit("1e-12"))
KD == INSTANCE Component WITH Add <- FAdd, Sub <- FSub, Mul <- FMul, Div <- FDiv, Lt <- FLt, Le <- FLe,
                              Eq <- EqD, Dec <- Lit, Exp <- FExp, Ln <- FLog, Pow10 <- FPow10
KX == INSTANCE Component WITH Add <- FAdd, Sub <- FSub, Mul <- FMul, Div <- FDiv, Lt <- FLt, Le <- FLe,
                              Eq <- EqX, Dec <- Lit, Exp <- FExp, Ln <- FLog, Pow10 <- FPow10

Hv(vp, T) ==
  IF Deviation = "no_square" /\ vp.type = "antoine"
    THEN FDiv(FNeg(FMul(FMul(FMul(FDiv(T, FAdd(T, vp.c)), KD!R), vp.b), KD!Ln10)), Lit("1000"))
  ELSE IF Deviation = "frost_c_once" /\ vp.type = "frost"
    THEN FDiv(FMul(FNeg(KD!R), FAdd(vp.b, FDiv(vp.c, T))), Lit("1000"))
  ELSE KD!Hvap(vp, T)

VARIABLES ci, T
vars == <<ci, T>>
Init == ci \in 1..Len(Comps) /\ T = Lit("200.0")
Step == /\ FLt(T, Lit("500.0"))
        /\ T' = FAdd(T, Lit("7.3")) /\ UNCHANGED ci
Next == Step
Spec == Init /\ [][Next]_vars

VP == Comps[ci].vp
AwayFromPole == VP.type = "frost" \/ FLe(Lit("40.0"), FAbs(FAdd(T, VP.c)))
h == FMul(T, Lit("1e-4"))
Inv_CC_FiniteDifference ==
  AwayFromPole => KD!ClausiusClapeyron(Hv(VP, T), T, h, KD!Psat(VP, FAdd(T, h)), KD!Psat(VP, FSub(T, h)),
                                       FMul(Hv(VP, T), Lit("1000")))
Inv_CC_Analytic ==
  AwayFromPole => EqX(FMul(Hv(VP, T), Lit("1000")), FMul(FMul(KX!R, KX!Sq(T)), KX!DLnP(VP, T)),
                      FMul(Hv(VP, T), Lit("1000")))
Inv_PsatPositive == AwayFromPole => FLt(Lit("0.0"), KD!Psat(VP, T)) /\ FIsFinite(KD!Psat(VP, T))
=============================================================================
