---------------------------- MODULE MC_SessionEdit ----------------------------
EXTENDS SessionEdit, TLC, Json
EntrySet == {"solver", "ideal_curve", "ideal_iso", "ideal_noniso", "nonideal_iso", "nonideal_curve", "best_fit", "fit", "measurements",
             "get_permeance", "activation_energy", "separation_factor"}
ObjectSet == {"membrane", "curve_set", "conditions", "measurements", "grid", "mixture"}
EditSet == {"membrane", "curve_set", "conditions", "measurements", "grid"}       \* (the mixture of a session is a built-in: never edited)
SmallEntries == {"solver", "ideal_iso", "best_fit"}
SmallEdits == {"conditions", "measurements"}
Done == Len(log) = MaxSteps /\ PrintT(<<"HISTORY", ToJson([j \in 1..Len(log) |-> [op |-> log[j].op, entry |-> log[j].entry]])>>)
        /\ UNCHANGED vars
SimSpec == Init /\ [][Next \/ Done]_vars
=============================================================================
