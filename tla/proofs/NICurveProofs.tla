----------------------------- MODULE NICurveProofs -----------------------------
(***************************************************************************)
(* TLAPS proof about NICurve.tla itself: for EVERY number of steps N, EVERY *)
(* arithmetic (Add, Mul, Le ... are not interpreted), every pair of fitted  *)
(* functions and every flux function (the environment is chosen freely at   *)
(* each step) a returned curve has exactly N + 1 compositions, permeance    *)
(* pairs and flux pairs, and starts at the stated composition (TLC          *)
(* enumerates N in 0..3).  The look-ahead entries and their pop are what    *)
(* makes this non-trivial; the named wrong design "no_pop" is excluded by   *)
(* assumption.                                                              *)
(***************************************************************************)
EXTENDS NICurve, SequenceTheorems, TLAPS

ASSUME DevNone == Dev = "none"

IsSeq(s) == \E S : s \in Seq(S)
GoodRun(r) == r.N \in Nat

PInit == pc = "init" /\ run = [N |-> 0] /\ xs = <<>> /\ Ps = <<>> /\ Js = <<>> /\ fv = <<>> /\ FR = <<>>
PNext == \/ \E r, e0 : GoodRun(r) /\ Start(r, e0)
         \/ \E e : Step(e)
         \/ Raise
         \/ Finish
PSpec == PInit /\ [][PNext]_vars

LoopInv == /\ GoodRun(run)
           /\ IsSeq(xs) /\ IsSeq(Ps) /\ IsSeq(Js) /\ IsSeq(fv)
           /\ Len(Js) <= run.N + 1
           /\ Len(xs) = Len(Js) + 1 /\ Len(Ps) = Len(Js) + 1 /\ Len(fv) = Len(Js) + 1
           /\ xs[1] = run.x0w
RetInv == Len(xs) = run.N + 1 /\ Len(Ps) = run.N + 1 /\ Len(Js) = run.N + 1 /\ xs[1] = run.x0w
Inv == /\ pc \in {"init", "loop", "raised", "returned"}
       /\ (pc \in {"loop", "raised"} => LoopInv)
       /\ (pc = "returned" => RetInv)

LEMMA AppendLen == ASSUME NEW s, IsSeq(s), NEW e
                   PROVE /\ IsSeq(Append(s, e)) /\ Len(Append(s, e)) = Len(s) + 1 /\ Len(s) \in Nat
                         /\ (Len(s) >= 1 => Append(s, e)[1] = s[1])
  <1>1. PICK S : s \in Seq(S)
    BY DEF IsSeq
  <1> DEFINE U == S \cup {e}
  <1>2. s \in Seq(U)
    BY <1>1, SeqMonotonic
  <1>3. Append(s, e) \in Seq(U) /\ Len(Append(s, e)) = Len(s) + 1
    BY <1>2, AppendProperties
  <1>4. Len(s) \in Nat
    BY <1>1, LenProperties
  <1>5. \A i \in 1 .. Len(s) : Append(s, e)[i] = s[i]
    BY <1>2, AppendProperties
  <1> QED BY <1>3, <1>4, <1>5 DEF IsSeq

LEMMA PopLen == ASSUME NEW s, IsSeq(s), Len(s) >= 2 PROVE Len(Pop(s)) = Len(s) - 1 /\ Pop(s)[1] = s[1]
  <1>1. PICK S : s \in Seq(S)
    BY DEF IsSeq
  <1>2. Len(s) \in Nat
    BY <1>1, LenProperties
  <1>3. \A i \in 1 .. (Len(s) - 1) : s[i] \in S
    BY <1>1, <1>2, ElementOfSeq
  <1>4. /\ Len(SubSeq(s, 1, Len(s) - 1)) = IF 1 <= Len(s) - 1 THEN (Len(s) - 1) - 1 + 1 ELSE 0
        /\ \A i \in 1 .. (Len(s) - 1) - 1 + 1 : SubSeq(s, 1, Len(s) - 1)[i] = s[1 + i - 1]
    BY <1>2, <1>3, SubSeqProperties
  <1> QED BY <1>2, <1>4 DEF Pop

LEMMA OneSeq == ASSUME NEW v PROVE IsSeq(<<v>>) /\ Len(<<v>>) = 1 /\ <<v>>[1] = v
  <1>1. <<v>> \in Seq({v})
    OBVIOUS
  <1> QED BY <1>1 DEF IsSeq
LEMMA NoSeq == IsSeq(<<>>) /\ Len(<<>>) = 0
  <1>1. <<>> \in Seq({})
    OBVIOUS
  <1> QED BY <1>1 DEF IsSeq

LEMMA StartStep == ASSUME NEW r, NEW e0, GoodRun(r), Start(r, e0) PROVE LoopInv' /\ pc' = "loop"
  <1>1. run' = r /\ pc' = "loop"
    BY DEF Start
  <1>2. IsSeq(xs') /\ Len(xs') = 1 /\ xs'[1] = r.x0w
    BY OneSeq DEF Start
  <1>3. IsSeq(Ps') /\ Len(Ps') = 1 /\ IsSeq(fv') /\ Len(fv') = 1
    BY OneSeq DEF Start
  <1>4. IsSeq(Js') /\ Len(Js') = 0
    BY NoSeq DEF Start
  <1> QED BY <1>1, <1>2, <1>3, <1>4 DEF LoopInv, GoodRun

LEMMA StepStep == ASSUME NEW e, pc = "loop", LoopInv, Step(e) PROVE LoopInv' /\ pc' = "loop"
  <1>1. run' = run /\ pc' = pc /\ Len(Js) < run.N + 1
    BY DEF Step
  <1>2. IsSeq(Js') /\ Len(Js') = Len(Js) + 1 /\ Len(Js) \in Nat
    BY AppendLen DEF Step, LoopInv
  <1>3. IsSeq(xs') /\ Len(xs') = Len(xs) + 1 /\ xs'[1] = xs[1]
    <2>1. xs' = Append(xs, Ahead) /\ IsSeq(xs) /\ Len(xs) = Len(Js) + 1
      BY DEF Step, LoopInv
    <2> QED BY <2>1, <1>2, AppendLen
  <1>4. IsSeq(fv') /\ Len(fv') = Len(fv) + 1
    BY AppendLen DEF Step, LoopInv
  <1>5. IsSeq(Ps') /\ Len(Ps') = Len(Ps) + 1
    <2>1. \E v : Ps' = Append(Ps, v)
      BY DEF Step
    <2> QED BY <2>1, AppendLen DEF LoopInv
  <1> QED BY <1>1, <1>2, <1>3, <1>4, <1>5 DEF LoopInv, GoodRun

LEMMA FinishStep == ASSUME pc = "loop", LoopInv, Finish PROVE RetInv' /\ pc' = "returned"
  <1>1. run' = run /\ Js' = Js /\ pc' = "returned" /\ Len(Js) = run.N + 1 /\ run.N \in Nat
    BY DEF Finish, LoopInv, GoodRun
  <1>2. Len(xs) >= 2 /\ Len(Ps) >= 2
    BY <1>1 DEF LoopInv
  <1>3. xs' = Pop(xs) /\ Ps' = Pop(Ps)
    BY DevNone DEF Finish
  <1>4. Len(xs') = Len(xs) - 1 /\ xs'[1] = xs[1] /\ Len(Ps') = Len(Ps) - 1
    BY <1>2, <1>3, PopLen DEF LoopInv
  <1> QED BY <1>1, <1>4 DEF RetInv, LoopInv

LEMMA RaiseStep == ASSUME pc = "loop", LoopInv, Raise PROVE LoopInv' /\ pc' = "raised"
  BY DEF Raise, LoopInv, GoodRun

THEOREM InvHolds == PSpec => []Inv
  <1>1. PInit => Inv
    BY DEF PInit, Inv
  <1>2. Inv /\ [PNext]_vars => Inv'
    <2> SUFFICES ASSUME Inv, [PNext]_vars PROVE Inv'
      OBVIOUS
    <2>1. CASE UNCHANGED vars
      BY <2>1 DEF vars, Inv, LoopInv, RetInv, GoodRun
    <2>2. ASSUME NEW r, NEW e0, GoodRun(r), Start(r, e0) PROVE Inv'
      BY <2>2, StartStep DEF Inv
    <2>3. ASSUME NEW e, Step(e) PROVE Inv'
      <3>1. pc = "loop"
        BY <2>3 DEF Step
      <3> QED BY <2>3, <3>1, StepStep DEF Inv
    <2>4. ASSUME Raise PROVE Inv'
      <3>1. pc = "loop"
        BY <2>4 DEF Raise
      <3> QED BY <2>4, <3>1, RaiseStep DEF Inv
    <2>5. ASSUME Finish PROVE Inv'
      <3>1. pc = "loop"
        BY <2>5 DEF Finish
      <3> QED BY <2>5, <3>1, FinishStep DEF Inv
    <2> QED BY <2>1, <2>2, <2>3, <2>4, <2>5 DEF PNext
  <1> QED BY <1>1, <1>2, PTL DEF PSpec

\* clause "N + 1 points in all series" (Cl_NI_Len) and the start of the grid, for every N
THEOREM LenOKHolds == PSpec => [](LenOK /\ Init0)
  <1>1. Inv => (LenOK /\ Init0)
    BY DEF Inv, RetInv, LenOK, Init0, Returned
  <1> QED BY <1>1, InvHolds, PTL
=============================================================================
