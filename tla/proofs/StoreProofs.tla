----------------------------- MODULE StoreProofs -----------------------------
(***************************************************************************)
(* TLAPS proofs about Store.tla itself (not a copy), for ARBITRARY sets     *)
(* Names and Models and any bound MaxSaves: the three properties TLC checks *)
(* for 2 names x 2 models x 3 saves hold for every instance, provided the   *)
(* store does not overwrite (for both collision designs: raise, rename).  Checked by tlapm in C17's thorough tier.      *)
(***************************************************************************)
EXTENDS Store, TLAPS

ASSUME NoOverwrite == Overwrite = FALSE

OldA == \A n \in DOMAIN dirs : n \in DOMAIN dirs' /\ dirs'[n] = dirs[n]
FreshA == (last'.op = "save") =>
             IF last'.outcome = "ok" THEN last'.name \notin DOMAIN dirs /\ DOMAIN dirs' = DOMAIN dirs \cup {last'.name}
             ELSE dirs' = dirs /\ last'.name \in DOMAIN dirs
\* what makes RoundTrip inductive
RTInv == (last.op = "load") => (last.name \in DOMAIN dirs /\ last.model = dirs[last.name][1])

LEMMA SaveStep == ASSUME NEW m \in Models, NEW s \in BOOLEAN, NEW n \in Names, Save(m, s, n)
                  PROVE OldA /\ FreshA /\ last'.op = "save"
  <1>1. CASE n \in DOMAIN dirs
    <2>1. CASE last' = [op |-> "save", outcome |-> "raise", name |-> n] /\ UNCHANGED dirs
      BY <1>1, <2>1 DEF OldA, FreshA
    <2>2. ASSUME NEW n2 \in Names \ DOMAIN dirs,
                 dirs' = [x \in DOMAIN dirs \cup {n2} |-> IF x = n2 THEN Content(m, s) ELSE dirs[x]],
                 last' = [op |-> "save", outcome |-> "ok", name |-> n2]
          PROVE OldA /\ FreshA /\ last'.op = "save"
      BY <2>2 DEF OldA, FreshA
    <2> QED BY <1>1, <2>1, <2>2, NoOverwrite DEF Save
  <1>2. CASE n \notin DOMAIN dirs
    BY <1>2, NoOverwrite DEF Save, OldA, FreshA, Content
  <1> QED BY <1>1, <1>2

LEMMA LoadStep == ASSUME NEW n \in Names, NEW s \in BOOLEAN, Load(n, s)
                  PROVE OldA /\ FreshA /\ RTInv'
  BY DEF Load, OldA, FreshA, RTInv

THEOREM OldDirsImmutableHolds == Spec => OldDirsImmutable
  <1>1. [Next]_vars => (OldA \/ UNCHANGED vars)
    BY SaveStep, LoadStep DEF Next, vars
  <1>2. (OldA \/ UNCHANGED vars) => [\A n \in DOMAIN dirs : n \in DOMAIN dirs' /\ dirs'[n] = dirs[n]]_vars
    BY DEF OldA
  <1> QED BY <1>1, <1>2, PTL DEF Spec, OldDirsImmutable

THEOREM FreshDirOrRaiseHolds == Spec => FreshDirOrRaise
  <1>1. [Next]_vars => (FreshA \/ UNCHANGED vars)
    BY SaveStep, LoadStep DEF Next, vars
  <1>2. (FreshA \/ UNCHANGED vars) =>
          [(last'.op = "save") =>
              IF last'.outcome = "ok" THEN last'.name \notin DOMAIN dirs /\ DOMAIN dirs' = DOMAIN dirs \cup {last'.name}
              ELSE dirs' = dirs /\ last'.name \in DOMAIN dirs]_vars
    BY DEF FreshA
  <1> QED BY <1>1, <1>2, PTL DEF Spec, FreshDirOrRaise

THEOREM RoundTripHolds == Spec => []RoundTrip
  <1>1. Init => RTInv
    BY DEF Init, RTInv
  <1>2. RTInv /\ [Next]_vars => RTInv'
    <2> SUFFICES ASSUME RTInv, [Next]_vars PROVE RTInv'
      OBVIOUS
    <2>1. CASE UNCHANGED vars
      BY <2>1 DEF vars, RTInv
    <2>2. ASSUME NEW m \in Models, NEW s \in BOOLEAN, NEW n \in Names, Save(m, s, n) PROVE RTInv'
      <3>1. last'.op = "save"
        BY <2>2, SaveStep
      <3> QED BY <3>1 DEF RTInv
    <2>3. ASSUME NEW n \in Names, NEW s \in BOOLEAN, Load(n, s) PROVE RTInv'
      BY <2>3, LoadStep
    <2> QED BY <2>1, <2>2, <2>3 DEF Next
  <1>3. RTInv => RoundTrip
    BY DEF RTInv, RoundTrip
  <1> QED BY <1>1, <1>2, <1>3, PTL DEF Spec
=============================================================================
