----------------------------- MODULE RejectProofs -----------------------------
(***************************************************************************)
(* TLAPS proof about Reject.tla itself: whatever sequence of edits of the   *)
(* specification and calls, an entry point that got an invalid              *)
(* specification has raised (design without the named deviation).           *)
(***************************************************************************)
EXTENDS Reject, TLAPS

ASSUME NoDeviation == Deviation = "none"

Inv == outcome.entry # "none" => outcome.result = (IF Valid(outcome.entry, outcome.model, spec) THEN "ok" ELSE "raise")

THEOREM RejectsInvalidHolds == Spec => []RejectsInvalid
  <1>1. Init => Inv
    BY DEF Init, Inv
  <1>2. Inv /\ [Next]_<<spec, outcome>> => Inv'
    <2> SUFFICES ASSUME Inv, [Next]_<<spec, outcome>> PROVE Inv'
      OBVIOUS
    <2>1. CASE UNCHANGED <<spec, outcome>>
      BY <2>1 DEF Inv
    <2>2. ASSUME NEW f \in Fields, Edit(f) PROVE Inv'
      BY <2>2 DEF Edit, Inv
    <2>3. ASSUME NEW e \in Entries, NEW mo \in Models, Call(e, mo) PROVE Inv'
      <3>1. Accepts(e, mo, spec) = Valid(e, mo, spec)
        BY NoDeviation DEF Accepts
      <3>2. e # "none"
        BY DEF Entries, DrivingForce, UsesModel
      <3> QED BY <2>3, <3>1, <3>2 DEF Call, Inv
    <2> QED BY <2>1, <2>2, <2>3 DEF Next
  <1>3. Inv => RejectsInvalid
    BY DEF Inv, RejectsInvalid
  <1> QED BY <1>1, <1>2, <1>3, PTL DEF Spec
=============================================================================
