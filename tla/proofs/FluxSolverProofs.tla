--------------------------- MODULE FluxSolverProofs ---------------------------
(***************************************************************************)
(* TLAPS proofs about FluxSolverCore.tla itself (the concrete machine           *)
(* Seed / Iterate / GiveUp / Exit), for EVERY input, EVERY arithmetic (Add, *)
(* Mul, Lt, ... are not interpreted), EVERY permeate-pressure map           *)
(* PermPress and EVERY natural bound MaxIter:                               *)
(*   - the bounded machine performs at most MaxIter iterations (C10);       *)
(*   - it returns only after a change below the requested precision, and    *)
(*     the returned fluxes are the solution-diffusion law evaluated at the  *)
(*     permeate composition it stopped at (C02), given only that Eq is      *)
(*     reflexive.                                                           *)
(* TLC checks the same on grids of rationals and on sampled doubles.        *)
(***************************************************************************)
EXTENDS FluxSolverCore, TLAPS

ASSUME BoundIsNat == MaxIter \in Nat
ASSUME IsBounded == Bounded = TRUE
ASSUME EqRefl == \A a, s : Eq(a, a, s)

Init == pc = "start" /\ n = 0
Spec == Init /\ [][Next]_vars

Inv == /\ pc \in {"start", "loop", "raised", "returned"}
       /\ n \in Nat /\ n <= MaxIter
       /\ (pc = "returned" => (Lt(d, inp.prec) /\ J = FluxAt(inp.P1, inp.P2, inp.pf, PermPress(inp, y))))

LEMMA InvNext == Inv /\ [Next]_vars => Inv'
  <1> SUFFICES ASSUME Inv, [Next]_vars PROVE Inv'
    OBVIOUS
  <1>1. CASE UNCHANGED vars
    BY <1>1 DEF vars, Inv
  <1>2. CASE Seed
    BY <1>2, BoundIsNat DEF Seed, Inv
  <1>3. CASE Iterate
    BY <1>3, IsBounded, BoundIsNat DEF Iterate, Inv
  <1>4. CASE GiveUp
    BY <1>4 DEF GiveUp, Inv
  <1>5. CASE Exit
    BY <1>5 DEF Exit, Inv, Continue
  <1> QED BY <1>1, <1>2, <1>3, <1>4, <1>5 DEF Next

THEOREM BoundedEvaluationsHolds == Spec => []BoundedEvaluations
  <1>1. Init => Inv
    BY BoundIsNat DEF Init, Inv
  <1>2. Inv => BoundedEvaluations
    BY DEF Inv, BoundedEvaluations
  <1> QED BY <1>1, <1>2, InvNext, PTL DEF Spec

THEOREM ExitedBelowPrecisionHolds == Spec => []ExitedBelowPrecision
  <1>1. Init => Inv
    BY BoundIsNat DEF Init, Inv
  <1>2. Inv => ExitedBelowPrecision
    BY DEF Inv, ExitedBelowPrecision
  <1> QED BY <1>1, <1>2, InvNext, PTL DEF Spec

THEOREM LawHolds == ASSUME NEW scale PROVE Spec => []Law(scale)
  <1>1. Init => Inv
    BY BoundIsNat DEF Init, Inv
  <1>2. Inv => Law(scale)
    BY EqRefl DEF Inv, Law, FluxAt
  <1> QED BY <1>1, <1>2, InvNext, PTL DEF Spec
=============================================================================
