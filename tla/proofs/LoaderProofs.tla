----------------------------- MODULE LoaderProofs -----------------------------
(***************************************************************************)
(* TLAPS proofs about Loader.tla itself, for an ARBITRARY set EntryNames    *)
(* and any bound MaxOps: what TLC checks for 2 entry names and 5 operations *)
(* holds for every instance, provided results/ is not created before the    *)
(* decisions.  Checked by tlapm in C17's thorough tier.                     *)
(***************************************************************************)
EXTENDS Loader, TLAPS

ASSUME NoMkdirFirst == MkdirFirst = FALSE

AddsA == (last'.op = "load") =>
            /\ [fs' EXCEPT !.results = fs.results] = fs
            /\ (fs'.results # fs.results => last'.outcome = "ok")
IsRec(f) == f = [csv |-> f.csv, hasSets |-> f.hasSets, entries |-> f.entries, results |-> f.results]
RecInv == IsRec(fs)

LEMMA EditKeepsOp == ASSUME [Next]_vars, last'.op = "load", ~UNCHANGED vars PROVE Load
  BY DEF Next, PutCsv, DropCsv, MkSets, PutEntry, DropEntry, Tick

LEMMA RecInvInductive == RecInv /\ [Next]_vars => RecInv'
  <1> SUFFICES ASSUME RecInv, [Next]_vars PROVE RecInv'
    OBVIOUS
  <1>1. CASE UNCHANGED vars
    BY <1>1 DEF vars, RecInv, IsRec
  <1>2. CASE \E k \in {"ok", "badcols"} : PutCsv(k)
    BY <1>2 DEF PutCsv, RecInv, IsRec
  <1>3. CASE DropCsv
    BY <1>3 DEF DropCsv, RecInv, IsRec
  <1>4. CASE MkSets
    BY <1>4 DEF MkSets, RecInv, IsRec
  <1>5. CASE \E e \in EntryNames, k \in Kinds : PutEntry(e, k)
    BY <1>5 DEF PutEntry, RecInv, IsRec
  <1>6. CASE \E e \in EntryNames : DropEntry(e)
    BY <1>6 DEF DropEntry, RecInv, IsRec
  <1>7. CASE Load
    BY <1>7 DEF Load, After, RecInv, IsRec
  <1> QED BY <1>1, <1>2, <1>3, <1>4, <1>5, <1>6, <1>7 DEF Next

LEMMA LoadAdds == ASSUME RecInv, Load PROVE AddsA
  <1>1. CASE Outcome(fs) = "ok"
    BY <1>1, NoMkdirFirst DEF Load, After, AddsA, RecInv, IsRec
  <1>2. CASE Outcome(fs) # "ok"
    BY <1>2, NoMkdirFirst DEF Load, After, AddsA, RecInv, IsRec
  <1> QED BY <1>1, <1>2

THEOREM LoadOnlyAddsResultsHolds == Spec => LoadOnlyAddsResults
  <1>1. Init => RecInv
    BY DEF Init, RecInv, IsRec
  <1>2. RecInv /\ [Next]_vars => (AddsA \/ UNCHANGED vars)
    <2> SUFFICES ASSUME RecInv, [Next]_vars, ~UNCHANGED vars PROVE AddsA
      OBVIOUS
    <2>1. CASE last'.op = "load"
      BY <2>1, EditKeepsOp, LoadAdds
    <2>2. CASE last'.op # "load"
      BY <2>2 DEF AddsA
    <2> QED BY <2>1, <2>2
  <1>3. (AddsA \/ UNCHANGED vars) =>
          [(last'.op = "load") =>
              /\ [fs' EXCEPT !.results = fs.results] = fs
              /\ (fs'.results # fs.results => last'.outcome = "ok")]_vars
    BY DEF AddsA
  <1> QED BY <1>1, <1>2, <1>3, RecInvInductive, PTL DEF Spec, LoadOnlyAddsResults

LEMMA CsvInductive == ASSUME RecInv, fs.csv \in {"absent", "ok", "badcols"}, [Next]_vars PROVE fs'.csv \in {"absent", "ok", "badcols"}
  <1>1. CASE UNCHANGED vars
    BY <1>1 DEF vars
  <1>2. CASE \E k \in {"ok", "badcols"} : PutCsv(k)
    BY <1>2 DEF PutCsv, RecInv, IsRec
  <1>3. CASE DropCsv
    BY <1>3 DEF DropCsv, RecInv, IsRec
  <1>4. CASE MkSets
    BY <1>4 DEF MkSets, RecInv, IsRec
  <1>5. CASE \E e \in EntryNames, k \in Kinds : PutEntry(e, k)
    BY <1>5 DEF PutEntry, RecInv, IsRec
  <1>6. CASE \E e \in EntryNames : DropEntry(e)
    BY <1>6 DEF DropEntry, RecInv, IsRec
  <1>7. CASE Load
    BY <1>7 DEF Load, After, RecInv, IsRec
  <1> QED BY <1>1, <1>2, <1>3, <1>4, <1>5, <1>6, <1>7 DEF Next

THEOREM NeverEmptyObjectHolds == Spec => []NeverEmptyObject
  <1> DEFINE Inv == /\ RecInv
                    /\ fs.csv \in {"absent", "ok", "badcols"}
                    /\ (last.op = "load" /\ last.outcome = "ok") => (last.obj.hasIE \/ last.obj.sets # {})
  <1>1. Init => Inv
    BY DEF Init, RecInv, IsRec
  <1>2. Inv /\ [Next]_vars => Inv'
    <2> SUFFICES ASSUME Inv, [Next]_vars PROVE Inv'
      OBVIOUS
    <2>0. fs'.csv \in {"absent", "ok", "badcols"} /\ RecInv'
      BY CsvInductive, RecInvInductive
    <2>1. CASE UNCHANGED vars
      BY <2>0, <2>1 DEF vars
    <2>2. CASE Load
      <3>1. last'.outcome = Outcome(fs) /\ last'.obj = Object(fs) /\ last'.op = "load"
        BY <2>2 DEF Load
      <3>2. Outcome(fs) = "ok" => (Object(fs).hasIE \/ Object(fs).sets # {})
        BY DEF Outcome, Object
      <3> QED BY <2>0, <3>1, <3>2
    <2>3. CASE ~UNCHANGED vars /\ ~Load
      <3>1. last'.op # "load"
        BY <2>3, EditKeepsOp
      <3> QED BY <2>0, <3>1
    <2> QED BY <2>1, <2>2, <2>3
  <1>3. Inv => NeverEmptyObject
    BY DEF NeverEmptyObject
  <1> QED BY <1>1, <1>2, <1>3, PTL DEF Spec
=============================================================================
