----------------------------- MODULE SessionProofs -----------------------------
(***************************************************************************)
(* TLAPS proofs about Session.tla itself: for ARBITRARY sets of entry       *)
(* points and shared objects and any number of calls, a library without     *)
(* impure entry points never changes an argument and answers every call as  *)
(* a fresh session would.  Checked by tlapm in C20's thorough tier.         *)
(***************************************************************************)
EXTENDS Session, TLAPS

ASSUME Pure == Impure = {}

Inv == /\ version = Fresh
       /\ log \in Seq([entry : Entries, before : {Fresh}, result : Entries \X {Fresh}, after : {Fresh}])
       /\ \A j \in 1..Len(log) : log[j].result = ResultOf(log[j].entry, Fresh)

LEMMA InvInit == Init => Inv
  BY DEF Init, Inv

LEMMA InvNext == Inv /\ [Next]_vars => Inv'
  <1> SUFFICES ASSUME Inv, [Next]_vars PROVE Inv'
    OBVIOUS
  <1>1. CASE UNCHANGED vars
    BY <1>1 DEF vars, Inv
  <1>2. ASSUME NEW e \in Entries, Call(e) PROVE Inv'
    <2>1. Touches(e) = {}
      BY Pure DEF Touches
    <2>2. version' = version
      BY <1>2, <2>1 DEF Call, Inv, Fresh
    <2> DEFINE rec == [entry |-> e, before |-> version, result |-> ResultOf(e, version),
                       after |-> [o \in Objects |-> IF o \in Touches(e) THEN version[o] + 1 ELSE version[o]]]
    <2>3. log' = Append(log, rec)
      BY <1>2 DEF Call
    <2>4. rec.after = Fresh /\ rec.before = Fresh /\ rec.result = ResultOf(e, Fresh) /\ rec.entry = e
      BY <2>1 DEF Inv, Fresh
    <2>5. rec \in [entry : Entries, before : {Fresh}, result : Entries \X {Fresh}, after : {Fresh}]
      BY <2>4 DEF ResultOf
    <2>6. log' \in Seq([entry : Entries, before : {Fresh}, result : Entries \X {Fresh}, after : {Fresh}])
      BY <2>3, <2>5 DEF Inv
    <2>7. \A j \in 1..Len(log') : log'[j].result = ResultOf(log'[j].entry, Fresh)
      BY <2>3, <2>4, <2>5 DEF Inv
    <2> QED BY <2>2, <2>6, <2>7 DEF Inv
  <1> QED BY <1>1, <1>2 DEF Next

THEOREM ArgsUnchangedHolds == Spec => []ArgsUnchanged
  <1>1. Inv => ArgsUnchanged
    BY DEF Inv, ArgsUnchanged
  <1> QED BY InvInit, InvNext, <1>1, PTL DEF Spec

THEOREM SameAsFreshHolds == Spec => []SameAsFresh
  <1>1. Inv => SameAsFresh
    BY DEF Inv, SameAsFresh
  <1> QED BY InvInit, InvNext, <1>1, PTL DEF Spec
=============================================================================
