----------------------------- MODULE FluxLoopProofs -----------------------------
(***************************************************************************)
(* TLAPS proof about FluxLoopAbstract.tla itself: for EVERY bound MaxIter   *)
(* (a natural number) the bounded loop never performs more than MaxIter     *)
(* iterations, whatever the map does (TLC enumerates MaxIter = 4; Apalache  *)
(* treats the bound symbolically on a typed copy).  Checked by tlapm in     *)
(* C10's thorough tier.                                                     *)
(***************************************************************************)
EXTENDS FluxLoopAbstract, TLAPS

ASSUME BoundIsNat == MaxIter \in Nat
ASSUME IsBounded == Bounded = TRUE

Inv == n \in Nat /\ n <= MaxIter /\ (pc = "start" => n = 0)

THEOREM BoundedEvaluationsHolds == ASpec => []BoundedEvaluations
  <1>1. AInit => Inv
    BY BoundIsNat DEF AInit, Inv
  <1>2. Inv /\ [ANext]_avars => Inv'
    <2> SUFFICES ASSUME Inv, [ANext]_avars PROVE Inv'
      OBVIOUS
    <2>1. CASE UNCHANGED avars
      BY <2>1 DEF avars, Inv
    <2>2. CASE ASeed
      BY <2>2 DEF ASeed, Inv
    <2>3. CASE AIterate
      BY <2>3, IsBounded, BoundIsNat DEF AIterate, Inv
    <2>4. CASE AGiveUp
      BY <2>4 DEF AGiveUp, Inv
    <2>5. CASE AExit
      BY <2>5 DEF AExit, Inv
    <2> QED BY <2>1, <2>2, <2>3, <2>4, <2>5 DEF ANext
  <1>3. Inv => BoundedEvaluations
    BY DEF Inv, BoundedEvaluations
  <1> QED BY <1>1, <1>2, <1>3, PTL DEF ASpec

\* the termination measure: while the loop keeps iterating, MaxIter - n strictly decreases and stays a natural number
THEOREM MeasureDecreases == ASSUME Inv, AIterate, pc' = "loop" PROVE MaxIter - n' < MaxIter - n /\ MaxIter - n' \in Nat
  BY IsBounded, BoundIsNat DEF AIterate, Inv
=============================================================================
