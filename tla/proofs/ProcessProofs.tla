----------------------------- MODULE ProcessProofs -----------------------------
(***************************************************************************)
(* TLAPS proof about Process.tla itself: for EVERY number of steps N >= 1,  *)
(* every kind of model (ideal or not, isothermal or not, any permeate mode, *)
(* programme or not), EVERY arithmetic (the operators Add, Mul, ... are not *)
(* interpreted) and EVERY environment (fluxes, heats, permeances chosen     *)
(* freely at each step), a returned model has series of exactly N entries   *)
(* (clause "exactly the requested number of steps" of C01; TLC enumerates   *)
(* N in {1, 2, 4}).  The look-ahead entry and its pop are what makes this   *)
(* non-trivial; the named wrong design "no_pop" is excluded by assumption.  *)
(***************************************************************************)
EXTENDS Process, SequenceTheorems, TLAPS

ASSUME DevNone == Dev = "none"

IsSeq(s) == \E S : s \in Seq(S)
GoodRun(r) == r.N \in Nat \ {0} /\ r.iso \in BOOLEAN /\ r.ideal \in BOOLEAN

Init == pc = "init" /\ run = [N |-> 1, iso |-> TRUE, ideal |-> TRUE]
        /\ time = <<>> /\ m = <<>> /\ x = <<>> /\ T = <<>> /\ J = <<>> /\ y = <<>> /\ P = <<>> /\ Qe = <<>> /\ Qc = <<>>
Next == \/ \E r, p0 : GoodRun(r) /\ Start(r, p0)
        \/ \E e : Step(e)
        \/ \E e : Raise(e)
        \/ Finish
Spec == Init /\ [][Next]_vars

LoopInv == /\ GoodRun(run)
           /\ IsSeq(time) /\ IsSeq(m) /\ IsSeq(x) /\ IsSeq(T) /\ IsSeq(J) /\ IsSeq(y) /\ IsSeq(P) /\ IsSeq(Qe) /\ IsSeq(Qc)
           /\ Len(J) <= run.N /\ Len(time) = run.N
           /\ Len(m) = Len(J) + 1 /\ Len(x) = Len(J) + 1
           /\ Len(T) = (IF run.iso THEN 1 ELSE Len(J) + 1)
           /\ Len(y) = Len(J) /\ Len(Qe) = Len(J) /\ Len(Qc) = Len(J)
           /\ Len(P) = (IF run.ideal THEN (IF run.iso THEN run.N ELSE Len(J)) ELSE Len(J) + 1)
RetInv == /\ Len(time) = run.N /\ Len(m) = run.N /\ Len(x) = run.N /\ Len(T) = run.N
          /\ Len(J) = run.N /\ Len(y) = run.N /\ Len(P) = run.N /\ Len(Qe) = run.N /\ Len(Qc) = run.N
Inv == /\ pc \in {"init", "loop", "raised", "returned"}
       /\ (pc \in {"loop", "raised"} => LoopInv)
       /\ (pc = "returned" => RetInv)

LEMMA AppendLen == ASSUME NEW s, IsSeq(s), NEW e PROVE IsSeq(Append(s, e)) /\ Len(Append(s, e)) = Len(s) + 1 /\ Len(s) \in Nat
  <1>1. PICK S : s \in Seq(S)
    BY DEF IsSeq
  <1> DEFINE U == S \cup {e}
  <1>2. s \in Seq(U)
    BY <1>1, SeqMonotonic
  <1>3. Append(s, e) \in Seq(U) /\ Len(Append(s, e)) = Len(s) + 1
    BY <1>2, AppendProperties
  <1>4. Len(s) \in Nat
    BY <1>1, LenProperties
  <1> QED BY <1>3, <1>4 DEF IsSeq

LEMMA PopLen == ASSUME NEW s, IsSeq(s), Len(s) >= 1 PROVE Len(Pop(s)) = Len(s) - 1
  <1>1. PICK S : s \in Seq(S)
    BY DEF IsSeq
  <1>2. Len(s) \in Nat
    BY <1>1, LenProperties
  <1>3. \A i \in 1 .. (Len(s) - 1) : s[i] \in S
    BY <1>1, <1>2, ElementOfSeq
  <1>4. Len(SubSeq(s, 1, Len(s) - 1)) = IF 1 <= Len(s) - 1 THEN (Len(s) - 1) - 1 + 1 ELSE 0
    BY <1>2, <1>3, SubSeqProperties
  <1> QED BY <1>2, <1>4 DEF Pop

LEMMA FunSeq == ASSUME NEW n \in Nat, NEW f(_) PROVE IsSeq([k \in 1..n |-> f(k)]) /\ Len([k \in 1..n |-> f(k)]) = n
  <1> DEFINE S == {f(k) : k \in 1..n}
  <1>1. [k \in 1..n |-> f(k)] \in Seq(S)
    BY IsASeq
  <1>2. Len([k \in 1..n |-> f(k)]) = n
    BY <1>1, LenProperties
  <1> QED BY <1>1, <1>2 DEF IsSeq

LEMMA OneSeq == ASSUME NEW v PROVE IsSeq(<<v>>) /\ Len(<<v>>) = 1
  <1>1. <<v>> \in Seq({v})
    OBVIOUS
  <1> QED BY <1>1 DEF IsSeq
LEMMA NoSeq == IsSeq(<<>>) /\ Len(<<>>) = 0
  <1>1. <<>> \in Seq({})
    OBVIOUS
  <1> QED BY <1>1 DEF IsSeq

LEMMA StartStep == ASSUME NEW r, NEW p0, GoodRun(r), Start(r, p0) PROVE LoopInv' /\ pc' = "loop"
  <1>1. run' = r /\ pc' = "loop"
    BY DEF Start
  <1>2. IsSeq(time') /\ Len(time') = r.N
    <2>1. time' = [k \in 1..r.N |-> TimeAt(r, k - 1)]
      BY DEF Start
    <2> QED BY <2>1, FunSeq DEF GoodRun
  <1>3. IsSeq(m') /\ Len(m') = 1 /\ IsSeq(x') /\ Len(x') = 1 /\ IsSeq(T') /\ Len(T') = 1
    BY OneSeq DEF Start
  <1>4. IsSeq(J') /\ Len(J') = 0 /\ IsSeq(y') /\ Len(y') = 0 /\ IsSeq(Qe') /\ Len(Qe') = 0 /\ IsSeq(Qc') /\ Len(Qc') = 0
    BY NoSeq DEF Start
  <1>5. IsSeq(P') /\ Len(P') = (IF r.ideal THEN (IF r.iso THEN r.N ELSE 0) ELSE 1)
    <2>1. CASE r.ideal /\ r.iso
      <3>1. P' = [k \in 1..r.N |-> p0]
        BY <2>1 DEF Start
      <3> QED BY <2>1, <3>1, FunSeq DEF GoodRun
    <2>2. CASE r.ideal /\ ~r.iso
      BY <2>2, NoSeq DEF Start
    <2>3. CASE ~r.ideal
      BY <2>3, OneSeq DEF Start
    <2> QED BY <2>1, <2>2, <2>3 DEF GoodRun
  <1> QED BY <1>1, <1>2, <1>3, <1>4, <1>5 DEF LoopInv, GoodRun

LEMMA StepStep == ASSUME NEW e, pc = "loop", LoopInv, Step(e) PROVE LoopInv' /\ pc' = "loop"
  <1>1. run' = run /\ time' = time /\ pc' = pc /\ Len(J) < run.N
    BY DEF Step
  <1>2. IsSeq(J') /\ Len(J') = Len(J) + 1 /\ Len(J) \in Nat
    BY AppendLen DEF Step, LoopInv
  <1>3. IsSeq(y') /\ Len(y') = Len(y) + 1 /\ IsSeq(Qe') /\ Len(Qe') = Len(Qe) + 1 /\ IsSeq(Qc') /\ Len(Qc') = Len(Qc) + 1
    BY AppendLen DEF Step, LoopInv
  <1>4. IsSeq(m') /\ Len(m') = Len(m) + 1 /\ IsSeq(x') /\ Len(x') = Len(x) + 1
    BY AppendLen DEF Step, LoopInv
  <1>5. IsSeq(T') /\ Len(T') = (IF run.iso THEN 1 ELSE Len(J') + 1)
    <2>1. CASE run.iso
      BY <2>1 DEF Step, LoopInv
    <2>2. CASE ~run.iso
      BY <2>2, <1>2, AppendLen DEF Step, LoopInv
    <2> QED BY <2>1, <2>2
  <1>6. IsSeq(P') /\ Len(P') = (IF run.ideal THEN (IF run.iso THEN run.N ELSE Len(J')) ELSE Len(J') + 1)
    <2>1. CASE run.ideal /\ run.iso
      BY <2>1 DEF Step, LoopInv
    <2>2. CASE run.ideal /\ ~run.iso
      BY <2>2, <1>2, AppendLen DEF Step, LoopInv
    <2>3. CASE ~run.ideal
      BY <2>3, <1>2, AppendLen DEF Step, LoopInv
    <2> QED BY <2>1, <2>2, <2>3 DEF LoopInv, GoodRun
  <1>7. Len(J') <= run.N
    BY <1>1, <1>2 DEF LoopInv, GoodRun
  <1> QED BY <1>1, <1>2, <1>3, <1>4, <1>5, <1>6, <1>7 DEF LoopInv

LEMMA FinishStep == ASSUME pc = "loop", LoopInv, Finish PROVE RetInv' /\ pc' = "returned"
  <1>1. run' = run /\ time' = time /\ J' = J /\ y' = y /\ Qe' = Qe /\ Qc' = Qc /\ pc' = "returned" /\ Len(J) = run.N
    BY DEF Finish
  <1>2. Len(m') = run.N /\ Len(x') = run.N
    <2>1. m' = Pop(m) /\ x' = Pop(x)
      BY DevNone DEF Finish
    <2> QED BY <2>1, <1>1, PopLen DEF LoopInv, GoodRun
  <1>3. Len(T') = run.N
    <2>1. CASE run.iso
      <3>1. T' = [k \in 1..run.N |-> run.T0]
        BY <2>1 DEF Finish
      <3> QED BY <3>1, FunSeq DEF LoopInv, GoodRun
    <2>2. CASE ~run.iso
      <3>1. T' = Pop(T)
        BY <2>2 DEF Finish
      <3> QED BY <3>1, <2>2, <1>1, PopLen DEF LoopInv, GoodRun
    <2> QED BY <2>1, <2>2
  <1>4. Len(P') = run.N
    <2>1. CASE run.ideal
      BY <2>1, <1>1 DEF Finish, LoopInv, GoodRun
    <2>2. CASE ~run.ideal
      <3>1. P' = Pop(P)
        BY <2>2 DEF Finish
      <3> QED BY <3>1, <2>2, <1>1, PopLen DEF LoopInv, GoodRun
    <2> QED BY <2>1, <2>2
  <1> QED BY <1>1, <1>2, <1>3, <1>4 DEF RetInv, LoopInv

THEOREM InvInductive == Inv /\ [Next]_vars => Inv'
  <1> SUFFICES ASSUME Inv, [Next]_vars PROVE Inv'
    OBVIOUS
  <1>1. CASE UNCHANGED vars
    BY <1>1 DEF vars, Inv, LoopInv, RetInv, GoodRun, IsSeq
  <1>2. ASSUME NEW r, NEW p0, GoodRun(r), Start(r, p0) PROVE Inv'
    BY <1>2, StartStep DEF Inv
  <1>3. ASSUME NEW e, Step(e) PROVE Inv'
    <2>1. pc = "loop"
      BY <1>3 DEF Step
    <2> QED BY <1>3, <2>1, StepStep DEF Inv
  <1>4. ASSUME NEW e, Raise(e) PROVE Inv'
    <2>1. pc = "loop" /\ pc' = "raised" /\ UNCHANGED <<run, time, m, x, T, J, y, P, Qe, Qc>>
      BY <1>4 DEF Raise
    <2> QED BY <2>1 DEF Inv, LoopInv, GoodRun, IsSeq
  <1>5. CASE Finish
    <2>1. pc = "loop"
      BY <1>5 DEF Finish
    <2> QED BY <1>5, <2>1, FinishStep DEF Inv
  <1> QED BY <1>1, <1>2, <1>3, <1>4, <1>5 DEF Next

THEOREM LenOKHolds == Spec => []LenOK
  <1>1. Init => Inv
    BY DEF Init, Inv
  <1>2. Inv => LenOK
    BY DEF Inv, RetInv, LenOK, Returned
  <1> QED BY <1>1, <1>2, InvInductive, PTL DEF Spec

(***************************************************************************)
(* Second theorem (design level of C18): in a guarded run every REPORTED    *)
(* state was examined by the guard of the step that used it, so a returned  *)
(* model contains admissible states only - for every N, every arithmetic    *)
(* and every environment.  Start is restricted to feeds whose initial       *)
(* composition passed the Composition validator.                            *)
(***************************************************************************)
GuardedRun(r) == GoodRun(r) /\ r.guarded = TRUE /\ ValidFraction(r.x0w)
NextG == \/ \E r, p0 : GuardedRun(r) /\ Start(r, p0)
         \/ \E e : Step(e)
         \/ \E e : Raise(e)
         \/ Finish
SpecG == Init /\ [][NextG]_vars

Tk(k) == IF run.iso THEN run.T0 ELSE T[k]
AdmLoop == /\ run.guarded = TRUE
           /\ \A k \in 1..Len(J) : Lt(Zero, m[k]) /\ Lt(Zero, Tk(k)) /\ ValidFraction(x[k]) /\ ValidFraction(y[k])
           /\ ValidFraction(x[Len(J) + 1])
AdmRet == \A k \in 1..run.N : Lt(Zero, m[k]) /\ Lt(Zero, T[k]) /\ ValidFraction(x[k]) /\ ValidFraction(y[k])
InvG == /\ Inv
        /\ (pc \in {"loop", "raised"} => AdmLoop)
        /\ (pc = "returned" => AdmRet)

LEMMA AppendKeeps == ASSUME NEW s, IsSeq(s), NEW e, NEW k \in 1..Len(s) PROVE Append(s, e)[k] = s[k]
  <1>1. PICK S : s \in Seq(S)
    BY DEF IsSeq
  <1> DEFINE U == S \cup {e}
  <1>2. s \in Seq(U)
    BY <1>1, SeqMonotonic
  <1> QED BY <1>2, AppendProperties
LEMMA AppendLast == ASSUME NEW s, IsSeq(s), NEW e PROVE Append(s, e)[Len(s) + 1] = e
  <1>1. PICK S : s \in Seq(S)
    BY DEF IsSeq
  <1> DEFINE U == S \cup {e}
  <1>2. s \in Seq(U)
    BY <1>1, SeqMonotonic
  <1> QED BY <1>2, AppendProperties
LEMMA PopKeeps == ASSUME NEW s, IsSeq(s), Len(s) >= 1, NEW k \in 1..(Len(s) - 1) PROVE Pop(s)[k] = s[k]
  <1>1. PICK S : s \in Seq(S)
    BY DEF IsSeq
  <1>2. Len(s) \in Nat
    BY <1>1, LenProperties
  <1>3. \A i \in 1 .. (Len(s) - 1) : s[i] \in S
    BY <1>1, <1>2, ElementOfSeq
  <1>4. \A i \in 1 .. (Len(s) - 1) - 1 + 1 : SubSeq(s, 1, Len(s) - 1)[i] = s[1 + i - 1]
    BY <1>2, <1>3, SubSeqProperties
  <1> QED BY <1>2, <1>4 DEF Pop

LEMMA StartAdm == ASSUME NEW r, NEW p0, GuardedRun(r), Start(r, p0) PROVE AdmLoop'
  <1>1. run' = r /\ J' = <<>> /\ x' = <<r.x0w>>
    BY DEF Start
  <1>2. Len(J') = 0 /\ x'[1] = r.x0w
    BY <1>1
  <1> QED BY <1>1, <1>2 DEF AdmLoop, GuardedRun

LEMMA StepAdm == ASSUME NEW e, pc = "loop", LoopInv, AdmLoop, Step(e) PROVE AdmLoop'
  <1> DEFINE k0 == Len(J) + 1
  <1>1. run' = run /\ Len(J) \in Nat /\ Len(J') = k0 /\ Len(m) = k0 /\ Len(x) = k0 /\ Len(y) = Len(J)
    BY AppendLen DEF Step, LoopInv
  <1>2. Admissible(m[k0], IF run.iso THEN run.T0 ELSE T[k0]) /\ ValidFraction(YOf(e)) /\ ValidFraction(CompNext(m[k0], x[k0], run, e))
    BY DEF Step, AdmLoop
  <1>3. \A k \in 1..k0 : m'[k] = m[k] /\ x'[k] = x[k]
    BY <1>1, AppendKeeps DEF Step, LoopInv
  <1>4. x'[k0 + 1] = CompNext(m[k0], x[k0], run, e)
    BY <1>1, AppendLast DEF Step, LoopInv
  <1>5. \A k \in 1..Len(J) : y'[k] = y[k]
    BY <1>1, AppendKeeps DEF Step, LoopInv
  <1>6. y'[k0] = YOf(e)
    BY <1>1, AppendLast DEF Step, LoopInv
  <1>7. \A k \in 1..k0 : (IF run.iso THEN run.T0 ELSE T'[k]) = (IF run.iso THEN run.T0 ELSE T[k])
    <2>1. CASE run.iso
      BY <2>1
    <2>2. CASE ~run.iso
      <3>1. Len(T) = k0 /\ T' = Append(T, TempNext(m[k0], x[k0], T[k0], run, e))
        BY <2>2 DEF Step, LoopInv
      <3> QED BY <2>2, <3>1, <1>1, AppendKeeps DEF LoopInv
    <2> QED BY <2>1, <2>2
  <1>8. \A k \in 1..k0 : Lt(Zero, m'[k]) /\ Lt(Zero, IF run.iso THEN run.T0 ELSE T'[k]) /\ ValidFraction(x'[k]) /\ ValidFraction(y'[k])
    <2> TAKE k \in 1..k0
    <2>1. CASE k = k0
      BY <2>1, <1>1, <1>2, <1>3, <1>6, <1>7 DEF Admissible, AdmLoop
    <2>2. CASE k \in 1..Len(J)
      BY <2>2, <1>1, <1>3, <1>5, <1>7 DEF AdmLoop, Tk
    <2> QED BY <2>1, <2>2, <1>1
  <1> QED BY <1>1, <1>2, <1>4, <1>8 DEF AdmLoop, Tk

LEMMA FinishAdm == ASSUME pc = "loop", LoopInv, AdmLoop, Finish PROVE AdmRet'
  <1>1. run' = run /\ J' = J /\ y' = y /\ Len(J) = run.N /\ run.N \in Nat /\ Len(m) = run.N + 1 /\ Len(x) = run.N + 1
    BY DEF Finish, LoopInv, GoodRun
  <1>2. \A k \in 1..run.N : m'[k] = m[k] /\ x'[k] = x[k]
    <2>1. m' = Pop(m) /\ x' = Pop(x)
      BY DevNone DEF Finish
    <2> QED BY <2>1, <1>1, PopKeeps DEF LoopInv
  <1>3. \A k \in 1..run.N : T'[k] = (IF run.iso THEN run.T0 ELSE T[k])
    <2>1. CASE run.iso
      BY <2>1, <1>1 DEF Finish
    <2>2. CASE ~run.iso
      <3>1. T' = Pop(T) /\ Len(T) = run.N + 1
        BY <2>2, <1>1 DEF Finish, LoopInv
      <3> QED BY <3>1, <2>2, <1>1, PopKeeps DEF LoopInv
    <2> QED BY <2>1, <2>2
  <1> QED BY <1>1, <1>2, <1>3 DEF AdmRet, AdmLoop, Tk

THEOREM AdmissibleStatesHolds == SpecG => []AdmissibleStates
  <1>1. Init => InvG
    BY DEF Init, InvG, Inv
  <1>2. InvG /\ [NextG]_vars => InvG'
    <2> SUFFICES ASSUME InvG, [NextG]_vars PROVE InvG'
      OBVIOUS
    <2>0. [Next]_vars
      BY DEF NextG, Next, GuardedRun
    <2>1. Inv'
      BY <2>0, InvInductive DEF InvG
    <2>2. CASE UNCHANGED vars
      BY <2>1, <2>2 DEF vars, InvG, AdmLoop, AdmRet, Tk
    <2>3. ASSUME NEW r, NEW p0, GuardedRun(r), Start(r, p0) PROVE InvG'
      <3>1. pc' = "loop"
        BY <2>3 DEF Start
      <3> QED BY <2>1, <2>3, <3>1, StartAdm DEF InvG
    <2>4. ASSUME NEW e, Step(e) PROVE InvG'
      <3>1. pc = "loop" /\ pc' = "loop"
        BY <2>4 DEF Step
      <3> QED BY <2>1, <2>4, <3>1, StepAdm DEF InvG, Inv
    <2>5. ASSUME NEW e, Raise(e) PROVE InvG'
      <3>1. pc = "loop" /\ pc' = "raised" /\ UNCHANGED <<run, time, m, x, T, J, y, P, Qe, Qc>>
        BY <2>5 DEF Raise
      <3> QED BY <2>1, <3>1 DEF InvG, AdmLoop, Tk
    <2>6. CASE Finish
      <3>1. pc = "loop" /\ pc' = "returned"
        BY <2>6 DEF Finish
      <3> QED BY <2>1, <2>6, <3>1, FinishAdm DEF InvG, Inv
    <2> QED BY <2>2, <2>3, <2>4, <2>5, <2>6 DEF NextG
  <1>3. InvG => AdmissibleStates
    BY DEF InvG, AdmRet, AdmissibleStates, Returned
  <1> QED BY <1>1, <1>2, <1>3, PTL DEF SpecG

(***************************************************************************)
(* Third theorem (C01: "the series start at the stated initial amount,      *)
(* composition and temperature ... time[k] = k x step length"; C03: "in     *)
(* isothermal models the feed temperature never changes"), for every N.     *)
(* Eq is only assumed to be reflexive.                                      *)
(***************************************************************************)
ASSUME EqRefl == \A a, sc : Eq(a, a, sc)

HeadLoop == /\ m[1] = run.m0 /\ x[1] = run.x0w /\ T[1] = run.T0
            /\ time = [k \in 1..run.N |-> TimeAt(run, k - 1)]
HeadRet == /\ m[1] = run.m0 /\ x[1] = run.x0w /\ T[1] = run.T0
           /\ time = [k \in 1..run.N |-> TimeAt(run, k - 1)]
           /\ (run.iso => \A k \in 1..run.N : T[k] = run.T0)
InvH == /\ Inv
        /\ (pc \in {"loop", "raised"} => HeadLoop)
        /\ (pc = "returned" => HeadRet)

LEMMA StartHead == ASSUME NEW r, NEW p0, GoodRun(r), Start(r, p0) PROVE HeadLoop'
  BY DEF Start, HeadLoop

LEMMA StepHead == ASSUME NEW e, pc = "loop", LoopInv, HeadLoop, Step(e) PROVE HeadLoop'
  <1>1. run' = run /\ time' = time /\ Len(J) \in Nat /\ Len(m) = Len(J) + 1 /\ Len(x) = Len(J) + 1
    BY AppendLen DEF Step, LoopInv
  <1>2. m'[1] = m[1] /\ x'[1] = x[1]
    BY <1>1, AppendKeeps DEF Step, LoopInv
  <1>3. T'[1] = T[1]
    <2>1. CASE run.iso
      BY <2>1 DEF Step
    <2>2. CASE ~run.iso
      <3>1. Len(T) = Len(J) + 1 /\ T' = Append(T, TempNext(m[Len(J) + 1], x[Len(J) + 1], T[Len(J) + 1], run, e))
        BY <2>2 DEF Step, LoopInv
      <3> QED BY <3>1, <1>1, AppendKeeps DEF LoopInv
    <2> QED BY <2>1, <2>2
  <1> QED BY <1>1, <1>2, <1>3 DEF HeadLoop

LEMMA FinishHead == ASSUME pc = "loop", LoopInv, HeadLoop, Finish PROVE HeadRet'
  <1>1. run' = run /\ time' = time /\ Len(J) = run.N /\ run.N \in Nat \ {0} /\ Len(m) = run.N + 1 /\ Len(x) = run.N + 1
    BY DEF Finish, LoopInv, GoodRun
  <1>2. m'[1] = m[1] /\ x'[1] = x[1]
    <2>1. m' = Pop(m) /\ x' = Pop(x)
      BY DevNone DEF Finish
    <2> QED BY <2>1, <1>1, PopKeeps DEF LoopInv
  <1>3. T'[1] = run.T0 /\ (run.iso => \A k \in 1..run.N : T'[k] = run.T0)
    <2>1. CASE run.iso
      BY <2>1, <1>1 DEF Finish
    <2>2. CASE ~run.iso
      <3>1. T' = Pop(T) /\ Len(T) = run.N + 1
        BY <2>2, <1>1 DEF Finish, LoopInv
      <3>2. T'[1] = T[1]
        BY <3>1, <1>1, PopKeeps DEF LoopInv
      <3> QED BY <3>2, <2>2 DEF HeadLoop
    <2> QED BY <2>1, <2>2
  <1> QED BY <1>1, <1>2, <1>3 DEF HeadRet, HeadLoop

THEOREM HeadInductive == InvH /\ [Next]_vars => InvH'
  <1> SUFFICES ASSUME InvH, [Next]_vars PROVE InvH'
    OBVIOUS
  <1>0. Inv'
    BY InvInductive DEF InvH
  <1>1. CASE UNCHANGED vars
    BY <1>0, <1>1 DEF vars, InvH, HeadLoop, HeadRet
  <1>2. ASSUME NEW r, NEW p0, GoodRun(r), Start(r, p0) PROVE InvH'
    <2>1. pc' = "loop"
      BY <1>2 DEF Start
    <2> QED BY <1>0, <1>2, <2>1, StartHead DEF InvH
  <1>3. ASSUME NEW e, Step(e) PROVE InvH'
    <2>1. pc = "loop" /\ pc' = "loop"
      BY <1>3 DEF Step
    <2> QED BY <1>0, <1>3, <2>1, StepHead DEF InvH, Inv
  <1>4. ASSUME NEW e, Raise(e) PROVE InvH'
    <2>1. pc = "loop" /\ pc' = "raised" /\ UNCHANGED <<run, time, m, x, T, J, y, P, Qe, Qc>>
      BY <1>4 DEF Raise
    <2> QED BY <1>0, <2>1 DEF InvH, HeadLoop
  <1>5. CASE Finish
    <2>1. pc = "loop" /\ pc' = "returned"
      BY <1>5 DEF Finish
    <2> QED BY <1>0, <1>5, <2>1, FinishHead DEF InvH, Inv
  <1> QED BY <1>1, <1>2, <1>3, <1>4, <1>5 DEF Next

THEOREM Init0Holds == Spec => [](Init0 /\ IsoConst /\ TimeGrid)
  <1>1. Init => InvH
    BY DEF Init, InvH, Inv
  <1>2. InvH => (Init0 /\ IsoConst /\ TimeGrid)
    <2> SUFFICES ASSUME InvH PROVE Init0 /\ IsoConst /\ TimeGrid
      OBVIOUS
    <2>1. CASE pc = "returned"
      <3>1. HeadRet
        BY <2>1 DEF InvH
      <3>2. Init0 /\ IsoConst
        BY <2>1, <3>1 DEF HeadRet, Init0, IsoConst, Returned
      <3>3. \A k \in 1..run.N : time[k] = Mul(run.dt, Num(k - 1))
        BY <3>1, DevNone DEF HeadRet, TimeAt
      <3>4. TimeGrid
        BY <3>3, EqRefl DEF TimeGrid
      <3> QED BY <3>2, <3>4
    <2>2. CASE pc # "returned"
      BY <2>2 DEF Init0, IsoConst, TimeGrid, Returned
    <2> QED BY <2>1, <2>2
  <1> QED BY <1>1, <1>2, HeadInductive, PTL DEF Spec
=============================================================================
