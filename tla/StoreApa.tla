------------------------------ MODULE StoreApa ------------------------------
(* Typed copy of Store.tla for Apalache, WITHOUT the bound on the number of saves: the action properties are checked *)
(* on one step from an arbitrary type-correct state, so they hold for histories of any length (TLC enumerates <= 3   *)
(* saves).  IndInv (with the round-trip clause) is inductive.                                                         *)
EXTENDS Integers, FiniteSets
CONSTANTS
  \* @type: Set(Str);
  Names,
  \* @type: Set(Str);
  Models,
  \* @type: Bool;
  Overwrite,
  \* @type: Bool;
  Rename
VARIABLES
  \* @type: Str -> <<Str, Bool>>;
  dirs,
  \* @type: { op: Str, outcome: Str, name: Str, model: Str };
  last

CInit == Names = {"a", "b", "c", "d"} /\ Models = {"m1", "m2", "m3"} /\ Overwrite = FALSE /\ Rename \in BOOLEAN
CInitNeg == Names = {"a", "b", "c", "d"} /\ Models = {"m1", "m2", "m3"} /\ Overwrite = TRUE /\ Rename \in BOOLEAN
AInit == dirs = [n \in {} |-> <<"m1", FALSE>>] /\ last = [op |-> "none", outcome |-> "", name |-> "", model |-> ""]

ASave(model, safe, name) ==
  IF name \in DOMAIN dirs /\ ~Overwrite
  THEN \/ /\ last' = [op |-> "save", outcome |-> "raise", name |-> name, model |-> model]
          /\ UNCHANGED dirs
       \/ /\ Rename
          /\ \E n2 \in Names \ DOMAIN dirs :
                /\ dirs' = [n \in DOMAIN dirs \cup {n2} |-> IF n = n2 THEN <<model, safe>> ELSE dirs[n]]
                /\ last' = [op |-> "save", outcome |-> "ok", name |-> n2, model |-> model]
  ELSE /\ dirs' = [n \in DOMAIN dirs \cup {name} |-> IF n = name THEN <<model, safe>> ELSE dirs[n]]
       /\ last' = [op |-> "save", outcome |-> "ok", name |-> name, model |-> model]
ALoad(name, safe) ==
  /\ name \in DOMAIN dirs /\ dirs[name][2] = safe
  /\ last' = [op |-> "load", outcome |-> "ok", name |-> name, model |-> dirs[name][1]]
  /\ UNCHANGED dirs
ANext == \/ \E m \in Models, s \in BOOLEAN, n \in Names : ASave(m, s, n)
         \/ \E n \in Names, s \in BOOLEAN : ALoad(n, s)

TypeOK == /\ \E S \in SUBSET Names : dirs \in [S -> Models \X BOOLEAN]
          /\ last \in [op : {"none", "save", "load"}, outcome : {"", "ok", "raise"}, name : Names \cup {""}, model : Models \cup {""}]
IndInv == TypeOK /\ (last.op = "load" => (last.name \in DOMAIN dirs /\ last.model = dirs[last.name][1]))
\* action properties (one step from any state satisfying IndInv)
OldDirsImmutableA == \A n \in DOMAIN dirs : n \in DOMAIN dirs' /\ dirs'[n] = dirs[n]
FreshDirOrRaiseA == (last'.op = "save") =>
                      IF last'.outcome = "ok" THEN last'.name \notin DOMAIN dirs /\ DOMAIN dirs' = DOMAIN dirs \cup {last'.name}
                      ELSE dirs' = dirs /\ last'.name \in DOMAIN dirs
=============================================================================
