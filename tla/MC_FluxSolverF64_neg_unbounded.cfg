SPECIFICATION Spec
CONSTANT Bounded = FALSE
CONSTANT MaxIter = 400
PROPERTY Terminates
CHECK_DEADLOCK FALSE
