SPECIFICATION Spec
INVARIANT KnownEvent
INVARIANT Cl_Qevap
INVARIANT Cl_SelfCool
INVARIANT Cl_Programme
INVARIANT Cl_IsoConst
INVARIANT Cl_QcondIff
INVARIANT Cl_Step0Agree
INVARIANT Ref_ProgramValue
CHECK_DEADLOCK FALSE
